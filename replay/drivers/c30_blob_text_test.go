package db

// Replay driver for obligation db.normalizeRowParameters#assert@set:values[i][blob-kept] (property C30).
// Witness class from the model: the driver hands back a []byte (a value of storage class BLOB)
// for a column whose declared type is text-like or empty (isTextType(types[i])): the value is
// turned into a text parameter. Concrete inputs: a blob expression, and blobs stored in an
// untyped column and in a TEXT column.

import (
	"testing"

	command "github.com/rqlite/rqlite/v10/command/proto"
)

func Test_VerifReplay_C30BlobReadBackAsText(t *testing.T) {
	db, _ := mustCreateOnDiskDatabaseWAL()
	defer db.Close()
	for _, s := range []string{`CREATE TABLE t (u, tx TEXT, bl BLOB)`} {
		if _, err := db.ExecuteStringStmt(s); err != nil {
			t.Fatalf("%s: %v", s, err)
		}
	}
	blob := []byte{0xff, 0x00, 0xfe}
	req := &command.Request{Statements: []*command.Statement{{
		Sql: `INSERT INTO t(u, tx, bl) VALUES(?, ?, ?)`,
		Parameters: []*command.Parameter{
			{Value: &command.Parameter_Y{Y: blob}}, {Value: &command.Parameter_Y{Y: blob}}, {Value: &command.Parameter_Y{Y: blob}},
		},
	}}}
	if r, err := db.Execute(req, false); err != nil || r[0].GetError() != "" {
		t.Fatalf("insert: %v %v", err, r)
	}
	rows, err := db.QueryStringStmt(`SELECT typeof(u), typeof(tx), typeof(bl), u, tx, bl, x'ff00fe' FROM t`)
	if err != nil || rows[0].Error != "" {
		t.Fatalf("query: %v %v", err, rows)
	}
	vals := rows[0].Values[0].Parameters
	for i := 0; i < 3; i++ {
		if vals[i].GetS() != "blob" {
			t.Fatalf("driver error: SQLite stores column %d as %q, not blob", i, vals[i].GetS())
		}
	}
	names := []string{"untyped column u", "TEXT column tx", "BLOB column bl", "expression x'ff00fe'"}
	for k, i := range []int{3, 4, 5, 6} {
		if _, isBlob := vals[i].GetValue().(*command.Parameter_Y); !isBlob {
			t.Errorf("failing input: blob ff00fe stored with storage class blob read back from %s as %T %q (result type %q)", names[k], vals[i].GetValue(), vals[i].GetS(), rows[0].Types[i])
		}
	}
}
