package store

// Replay driver for obligations (*Store).Close#assert@s.snapshotCAS.BeginWithRetry[prompt|limit]
// (property C31). Witness: another operation holds the snapshot gate for 300 ms; Close must
// return promptly (well under the retry bound of one second) after the holder releases.

import (
	"testing"
	"time"
)

func Test_VerifReplay_C31Close(t *testing.T) {
	s, ln := mustNewStore(t)
	defer ln.Close()
	if err := s.Open(); err != nil {
		t.Fatalf("open: %v", err)
	}
	if err := s.Bootstrap(NewServer(s.ID(), s.Addr(), true)); err != nil {
		t.Fatalf("bootstrap: %v", err)
	}
	if _, err := s.WaitForLeader(10 * time.Second); err != nil {
		t.Fatalf("leader: %v", err)
	}
	s.NoSnapshotOnClose = true
	if err := s.snapshotCAS.Begin("holder"); err != nil {
		t.Fatalf("begin: %v", err)
	}
	hold := 300 * time.Millisecond
	go func() { time.Sleep(hold); s.snapshotCAS.End() }()
	start := time.Now()
	err := s.Close(true)
	took := time.Since(start)
	if err != nil {
		t.Errorf("failing input: gate held for %v, Close returned error %v after %v", hold, err, took)
	}
	if took > hold+3*time.Second {
		t.Errorf("failing input: gate held for %v only, but Close returned after %v (must proceed promptly once the holder finishes)", hold, took)
	}
}
