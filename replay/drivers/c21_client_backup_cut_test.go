package cluster

// Replay driver for obligation (*Client).Backup#assert@io.Copy[stream-end-verified] (property C21).
// Witness class from the model: br.Compress == true, so no gzip reader looks at the stream
// (viaGz == false) and io.Copy ends on a plain EOF. Concrete fault: the serving node accepts the
// request, sends the first half of the gzip stream and dies (connection closed). The client must
// report an error; with Compress == false it does (unexpected EOF from the gzip reader).

import (
	"bytes"
	"compress/gzip"
	"context"
	"crypto/rand"
	"net"
	"testing"
	"time"

	"github.com/rqlite/rqlite/v10/cluster/proto"
	"github.com/rqlite/rqlite/v10/cluster/servicetest"
	command "github.com/rqlite/rqlite/v10/command/proto"
	pb "google.golang.org/protobuf/proto"
)

func Test_VerifReplay_C21ClientBackupCutStream(t *testing.T) {
	payload := make([]byte, 256*1024)
	rand.Read(payload)
	var gz bytes.Buffer
	zw := gzip.NewWriter(&gz)
	zw.Write(payload)
	zw.Close()
	full := gz.Bytes()

	srv := servicetest.NewService()
	srv.Handler = func(conn net.Conn) {
		c := readCommand(conn)
		if c == nil {
			return
		}
		p, _ := pb.Marshal(&proto.CommandBackupResponse{})
		writeBytesWithLength(conn, p)
		conn.Write(full[:len(full)/2]) // the node dies mid-stream
	}
	srv.Start()
	defer srv.Close()

	for _, compress := range []bool{false, true} {
		cl := NewClient(&simpleDialer{}, 0)
		var out bytes.Buffer
		br := &command.BackupRequest{Format: command.BackupRequest_BACKUP_REQUEST_FORMAT_BINARY, Compress: compress}
		err := cl.Backup(context.Background(), br, srv.Addr(), nil, 5*time.Second, &out)
		if err == nil {
			t.Errorf("failing input: backup stream cut after %d of %d bytes, compress=%v: Client.Backup returned nil with %d bytes written", len(full)/2, len(full), compress, out.Len())
		}
	}
}
