package db

// Replay driver for the language-inclusion obligations rq/db.BreakingPragmas#incl[<setting>.<form>]
// (property C15). The class (setting, syntactic form) is taken from the obligation name
// (GOVC_OBLIGATION); the witness is the canonical text of that class (the solver's own witness,
// when present in GOVC_MODEL, is tried first). A failing input is a SQL text that
// IsBreakingPragma accepts, that SQLite executes through db.ExecuteStringStmt on a WAL-mode
// database, and after which the critical setting has changed (or the WAL was checkpointed).

import (
	"fmt"
	"os"
	"regexp"
	"strings"
	"testing"
)

func verifPragmaValue(db *DB, name string) string {
	if name == "synchronous" || name == "wal_autocheckpoint" || name == "query_only" {
		// per-connection settings: observe the read-write connection the node writes with
		var v string
		if err := db.rwDB.QueryRow("PRAGMA " + name).Scan(&v); err != nil {
			return "error: " + err.Error()
		}
		return v
	}
	r, err := db.QueryStringStmt("PRAGMA " + name)
	if err != nil {
		return "error: " + err.Error()
	}
	return asJSON(r)
}

func Test_VerifReplay_C15Pragma(t *testing.T) {
	obl := os.Getenv("GOVC_OBLIGATION")
	m := regexp.MustCompile(`#incl\[(\w+)\.(\w+)\]`).FindStringSubmatch(obl)
	if m == nil {
		t.Skipf("no class in obligation name %q", obl)
	}
	setting, form := m[1], m[2]
	value := map[string]string{"journal_mode": "DELETE", "wal_autocheckpoint": "1", "synchronous": "3", "query_only": "1", "wal_checkpoint": "TRUNCATE"}[setting]
	var canon string
	switch form {
	case "call":
		canon = fmt.Sprintf("PRAGMA %s(%s)", setting, value)
	case "schema":
		canon = fmt.Sprintf("PRAGMA main.%s=%s", setting, value)
	case "quoted":
		canon = fmt.Sprintf(`PRAGMA "%s"=%s`, setting, value)
	case "comment":
		canon = fmt.Sprintf("/* c */ PRAGMA %s=%s", setting, value)
		if setting == "wal_checkpoint" {
			canon = "/* c */ PRAGMA wal_checkpoint(TRUNCATE)"
		}
	case "later":
		canon = fmt.Sprintf("SELECT 1; PRAGMA %s=%s", setting, value)
		if setting == "wal_checkpoint" {
			canon = "SELECT 1; PRAGMA wal_checkpoint(TRUNCATE)"
		}
	case "semi":
		canon = fmt.Sprintf("; PRAGMA %s=%s", setting, value)
	default:
		canon = fmt.Sprintf("PRAGMA %s=%s", setting, value)
	}
	witnesses := []string{canon}
	if b, err := os.ReadFile(os.Getenv("GOVC_MODEL")); err == nil {
		if mm := regexp.MustCompile(`(?s)define-fun x \(\) String\s+"((?:[^"]|"")*)"`).FindSubmatch(b); mm != nil {
			w := strings.ReplaceAll(string(mm[1]), `""`, `"`)
			w = regexp.MustCompile(`\\u\{([0-9a-fA-F]+)\}`).ReplaceAllStringFunc(w, func(s string) string {
				var c int
				fmt.Sscanf(s[3:len(s)-1], "%x", &c)
				return string(rune(c))
			})
			witnesses = append([]string{w}, witnesses...)
		}
	}
	// run the same scenario with and without the witness and compare the observed setting
	run := func(w string) (val string, wal int64, execErr string) {
		db, path := mustCreateOnDiskDatabaseWAL()
		defer os.Remove(path)
		defer db.Close()
		mustExecute(db, "CREATE TABLE foo (id INTEGER NOT NULL PRIMARY KEY, name TEXT)")
		mustExecute(db, `INSERT INTO foo(name) VALUES("fiona")`)
		if w != "" {
			r, err := db.ExecuteStringStmt(w)
			if err != nil {
				execErr = err.Error()
			} else if len(r) > 0 && r[len(r)-1].GetError() != "" {
				execErr = r[len(r)-1].GetError()
			}
		}
		wal, _ = db.WALSize()
		val = verifPragmaValue(db, setting)
		if setting == "query_only" {
			if r, err := db.ExecuteStringStmt(`INSERT INTO foo(name) VALUES("declan")`); err != nil {
				val += " write-refused:" + err.Error()
			} else if len(r) > 0 && r[0].GetError() != "" {
				val += " write-refused:" + r[0].GetError()
			}
		}
		return
	}
	ctlVal, ctlWAL, _ := run("")
	for _, w := range witnesses {
		if IsBreakingPragma(w) {
			continue // the guard rejects this text
		}
		val, wal, execErr := run(w)
		changed := val != ctlVal
		if setting == "wal_checkpoint" {
			changed = ctlWAL > 0 && wal == 0
		}
		if changed {
			t.Errorf("failing input: SQL text %q passes the pragma guard (IsBreakingPragma == false) and is executed by SQLite (exec error %q): %s without it %s, with it %s; WAL size %d vs %d", w, execErr, setting, ctlVal, val, ctlWAL, wal)
			return
		}
	}
}
