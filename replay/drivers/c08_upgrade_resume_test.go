package snapshot

// Replay driver for obligation snapshot.Upgrade8To10#assert@p.Execute[executed-only-when-persisted-or-safely-resumed]
// (property C08). Witness: the resume branch executes the stored plan again from its first
// operation without looking whether the Rename into place already happened; the plan re-creates the source of its Rename
// (MkdirAll tmp ... Rename tmp -> new) and removes the directory its CopyFile reads from
// (RemoveAll old) while the plan file still exists; a resumed plan is executed again from its first
// operation. Crash points replayed on the real code:
//   k=6: after the Rename, before RemoveAll(old)   (new complete, old present, plan file present)
//   k=7: after RemoveAll(old), before the plan file is removed (new complete, old gone, plan present)
// The state is produced by the real function: the plan file is captured while Upgrade8To10 runs.

import (
	"log"
	"os"
	"path/filepath"
	"strings"
	"testing"
	"time"
)

func verifCopyDir(t *testing.T, src, dst string) {
	t.Helper()
	err := filepath.Walk(src, func(p string, fi os.FileInfo, err error) error {
		if err != nil {
			return err
		}
		rel, _ := filepath.Rel(src, p)
		target := filepath.Join(dst, rel)
		if fi.IsDir() {
			return os.MkdirAll(target, 0755)
		}
		b, err := os.ReadFile(p)
		if err != nil {
			return err
		}
		return os.WriteFile(target, b, 0644)
	})
	if err != nil {
		t.Fatalf("copy dir: %v", err)
	}
}

func Test_VerifReplay_C08UpgradeResume(t *testing.T) {
	logger := log.New(os.Stderr, "[verif-c08] ", 0)
	for _, k := range []int{6, 7} {
		base := t.TempDir()
		oldDir := filepath.Join(base, "snapshots")
		newDir := filepath.Join(base, "rsnapshots")
		backup := filepath.Join(base, "old-backup")
		if err := os.MkdirAll(oldDir, 0755); err != nil {
			t.Fatal(err)
		}
		mustCreateV8Snapshot(t, oldDir, "2-18-1686659761026", 18, 2)
		verifCopyDir(t, oldDir, backup)
		planPath := filepath.Join(filepath.Dir(newDir), upgrade8To10Plan)

		// capture the plan file the real function writes
		var captured []byte
		stop := make(chan struct{})
		done := make(chan struct{})
		go func() {
			defer close(done)
			for {
				select {
				case <-stop:
					return
				default:
				}
				if b, err := os.ReadFile(planPath); err == nil && len(b) > 0 && captured == nil {
					captured = b
				}
				time.Sleep(20 * time.Microsecond)
			}
		}()
		if err := Upgrade8To10(oldDir, newDir, logger); err != nil {
			t.Fatalf("first upgrade: %v", err)
		}
		close(stop)
		<-done
		if captured == nil {
			t.Skip("driver could not capture the plan file (too fast); no verdict")
		}
		// re-create the on-disk state of a crash after operation k
		if k == 6 {
			verifCopyDir(t, backup, oldDir) // RemoveAll(old) had not happened yet
		}
		if err := os.WriteFile(planPath, captured, 0644); err != nil {
			t.Fatal(err)
		}
		err := Upgrade8To10(oldDir, newDir, logger)
		if err != nil {
			t.Errorf("failing crash point: crash after operation %d of the upgrade plan (%s), restart: Upgrade8To10 fails with %q and will fail on every later start", k, strings.TrimSpace(string(captured)), err)
		}
	}
}
