package http

// Replay driver for obligation (*Service).handleLoad#assert@s.proxy.Execute[rewritten-before-replication]
// (property C01). Witness class from the model: the body is not a SQLite file (SQL-text branch),
// no noparse/norw* parameter, and sql.Process was never run (rw == false) when proxy.Execute is
// reached. Concrete input: SQL text with random() and datetime('now') posted to /db/load; the same
// text posted to /db/execute is rewritten before it reaches the store, so every node stores the
// same values; through /db/load the un-rewritten calls are replicated and each node evaluates
// them on its own.

import (
	"fmt"
	"net/http"
	"strings"
	"sync"
	"testing"

	command "github.com/rqlite/rqlite/v10/command/proto"
	"github.com/rqlite/rqlite/v10/proxy"
)

func Test_VerifReplay_C01LoadNoRewrite(t *testing.T) {
	var mu sync.Mutex
	var seen []string
	m := &MockStore{}
	m.executeFn = func(er *command.ExecuteRequest) ([]*command.ExecuteQueryResponse, uint64, error) {
		mu.Lock()
		defer mu.Unlock()
		for _, st := range er.Request.Statements {
			seen = append(seen, st.Sql)
		}
		return nil, 1, nil
	}
	c := &mockClusterService{}
	s := New("127.0.0.1:0", m, c, proxy.New(m, c), nil)
	if err := s.Start(); err != nil {
		t.Fatalf("start: %v", err)
	}
	defer s.Close()
	const sqlText = `INSERT INTO foo(v, t) VALUES(random(), datetime('now'))`

	post := func(path, contentType, body string) {
		resp, err := http.Post(fmt.Sprintf("http://%s%s", s.Addr().String(), path), contentType, strings.NewReader(body))
		if err != nil {
			t.Fatalf("post %s: %v", path, err)
		}
		resp.Body.Close()
		if resp.StatusCode != 200 {
			t.Fatalf("post %s: status %d", path, resp.StatusCode)
		}
	}
	post("/db/execute", "text/plain", sqlText)
	post("/db/load", "text/plain", sqlText)
	mu.Lock()
	defer mu.Unlock()
	if len(seen) != 2 {
		t.Fatalf("expected 2 statements at the store, got %d: %q", len(seen), seen)
	}
	lower := func(s string) string { return strings.ToLower(s) }
	if strings.Contains(lower(seen[0]), "random()") || strings.Contains(lower(seen[0]), "'now'") {
		t.Fatalf("control failed: /db/execute did not rewrite: %q", seen[0])
	}
	if strings.Contains(lower(seen[1]), "random()") || strings.Contains(lower(seen[1]), "'now'") {
		t.Errorf("failing input: SQL text %q posted to /db/load reaches the store (and the Raft log) un-rewritten: %q; via /db/execute it is replicated as %q", sqlText, seen[1], seen[0])
	}
}
