package db

// Replay driver for obligation (*DB).RequestWithContext#loop1-keep[no-failure-survives] (property C13).
// Witness class from the model: Transaction == true, a transaction is open (active), and
// StmtReadOnlyWithConn returns an error for a statement (result1 != nil): the loop continues with
// the failure recorded but the transaction neither rolled back nor stopped, and is later committed.
// Concrete input: a unified request marked as a transaction whose middle statement cannot be
// prepared (unknown table). All-or-nothing demands that no row of the request remains.

import (
	"testing"

	command "github.com/rqlite/rqlite/v10/command/proto"
)

func Test_VerifReplay_C13UnifiedTxClassifyError(t *testing.T) {
	db, _ := mustCreateOnDiskDatabaseWAL()
	defer db.Close()
	if _, err := db.ExecuteStringStmt("CREATE TABLE foo (id INTEGER PRIMARY KEY, name TEXT)"); err != nil {
		t.Fatal(err)
	}
	req := &command.Request{
		Transaction: true,
		Statements: []*command.Statement{
			{Sql: `INSERT INTO foo(id, name) VALUES(1, "a")`},
			{Sql: `INSERT INTO nosuchtable(id) VALUES(1)`},
			{Sql: `INSERT INTO foo(id, name) VALUES(2, "b")`},
		},
	}
	res, err := db.Request(req, false)
	if err != nil {
		t.Fatalf("request: %v", err)
	}
	rows, err := db.QueryStringStmt("SELECT COUNT(*) FROM foo")
	if err != nil {
		t.Fatal(err)
	}
	got := asJSON(rows)
	if exp := `[{"columns":["COUNT(*)"],"types":["integer"],"values":[[0]]}]`; got != exp {
		t.Errorf("failing input: transactional unified request [insert ok; insert into unknown table; insert ok]: results %s; rows left behind by the failed transaction: %s (want none)", asJSON(res), got)
	}
	if len(res) != 2 {
		t.Errorf("failing input: execution did not stop at the first failure inside the transaction: %d results %s (want 2)", len(res), asJSON(res))
	}
}
