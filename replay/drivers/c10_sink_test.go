package snapshot

// Replay driver for (*Sink).Close#ensures[nil-means-installed] (property C10): a stream truncated
// inside its header (here: 3 of the 4 length-prefix bytes) is closed with a nil error although
// nothing was installed.

import (
	"os"
	"path/filepath"
	"testing"

	"github.com/hashicorp/raft"
)

func Test_VerifReplay_C10SinkTruncatedHeader(t *testing.T) {
	dir := t.TempDir()
	meta := &raft.SnapshotMeta{ID: "snap-verif-1", Index: 10, Term: 2}
	s := NewSink(dir, meta, nil, nil)
	if err := s.Open(); err != nil {
		t.Fatalf("open: %v", err)
	}
	if _, err := s.Write([]byte{0, 0, 1}); err != nil {
		t.Fatalf("write: %v", err)
	}
	err := s.Close()
	_, statErr := os.Stat(filepath.Join(dir, meta.ID))
	if err == nil {
		t.Errorf("failing input: stream truncated after 3 bytes (inside the header length prefix): Sink.Close() returned nil; snapshot directory installed: %v", statErr == nil)
	}
}
