package chunking

// Replay driver for obligation (*Chunker).Next#loop1-keep[no-dropped-error] (property C28).
// Witness class from the model: a Read that returns n > 0 together with a non-EOF error (allowed by
// the io.Reader contract). The error must be reported by Next, not silently replaced.

import (
	"errors"
	"io"
	"testing"
)

type verifErrReader struct {
	step int
}

var errVerifBoom = errors.New("boom: device error")

func (r *verifErrReader) Read(p []byte) (int, error) {
	r.step++
	switch r.step {
	case 1:
		n := copy(p, []byte("abc"))
		return n, errVerifBoom
	default:
		return 0, io.EOF
	}
}

func Test_VerifReplay_C28ReadError(t *testing.T) {
	c := NewChunker(&verifErrReader{}, 1024)
	var sawErr error
	n := 0
	for i := 0; i < 5; i++ {
		chunk, err := c.Next()
		if err != nil {
			sawErr = err
			break
		}
		if chunk != nil {
			n++
		}
	}
	if !errors.Is(sawErr, errVerifBoom) {
		t.Errorf("failing input: reader returns (3, %q) then (0, EOF): the chunker produced %d chunk(s) and finished with %v; the read error was dropped and a truncated stream is presented as complete", errVerifBoom, n, sawErr)
	}
}
