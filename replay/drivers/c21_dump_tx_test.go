package db

// Replay driver for obligation (*DB).Dump#assert@db.queryWithConn[one-read-transaction] (property C21).
// Witness class from the model: the first read of the dump is issued with no read transaction
// open on the connection (inReadTx == false), so later reads may see later commits.
// Concrete schedule: two tables whose values always sum to 1000; while the dump is being written
// (from inside the dump's io.Writer, i.e. between two of its reads) a transaction moves 100 from
// one table to the other and commits. A point-in-time dump shows a sum of 1000.

import (
	"bytes"
	"strings"
	"testing"
)

type verifDumpWriter struct {
	buf   bytes.Buffer
	db    *DB
	done  bool
	t     *testing.T
	after string
}

func (w *verifDumpWriter) Write(p []byte) (int, error) {
	n, err := w.buf.Write(p)
	if !w.done && strings.Contains(string(p), w.after) {
		w.done = true
		r, err := w.db.ExecuteStringStmt(`BEGIN; UPDATE acct_a SET v = v - 100; UPDATE acct_b SET v = v + 100; COMMIT`)
		if err != nil {
			w.t.Fatalf("transfer failed: %v", err)
		}
		_ = r
	}
	return n, err
}

func Test_VerifReplay_C21DumpPointInTime(t *testing.T) {
	db, _ := mustCreateOnDiskDatabaseWAL()
	defer db.Close()
	for _, s := range []string{
		`CREATE TABLE acct_a (v INTEGER)`, `CREATE TABLE acct_b (v INTEGER)`,
		`INSERT INTO acct_a(v) VALUES(500)`, `INSERT INTO acct_b(v) VALUES(500)`,
	} {
		if _, err := db.ExecuteStringStmt(s); err != nil {
			t.Fatalf("%s: %v", s, err)
		}
	}
	w := &verifDumpWriter{db: db, t: t, after: `INSERT INTO "acct_a" VALUES(`}
	if err := db.Dump(w); err != nil {
		t.Fatalf("dump: %v", err)
	}
	if !w.done {
		t.Fatalf("driver error: the transfer was never triggered; dump:\n%s", w.buf.String())
	}
	out := w.buf.String()
	a500 := strings.Contains(out, `INSERT INTO "acct_a" VALUES(500)`)
	b500 := strings.Contains(out, `INSERT INTO "acct_b" VALUES(500)`)
	a400 := strings.Contains(out, `INSERT INTO "acct_a" VALUES(400)`)
	b600 := strings.Contains(out, `INSERT INTO "acct_b" VALUES(600)`)
	if !((a500 && b500) || (a400 && b600)) {
		t.Errorf("failing schedule: a transfer committed between two reads of the dump; the dump is not a single point in time (a=500:%v a=400:%v b=500:%v b=600:%v):\n%s", a500, a400, b500, b600, out)
	}
}
