package store

// Replay driver for obligations (*Store).Backup#ensures[copy-error-returned] and
// #ensures[nil-means-produced] (property C21). Witness class from the model: Format == DELETE,
// Compress == true, io.Copy returns a non-nil error (cpErr != nil) and Backup returns nil.
// Concrete input: a destination writer that fails once some bytes have been written (a client
// that went away, a full disk). A big incompressible-ish table makes the gzip writer flush to the
// destination during the copy, so the failure happens inside io.Copy.

import (
	"context"
	"errors"
	"fmt"
	"strings"
	"testing"
	"time"

	"github.com/rqlite/rqlite/v10/command/proto"
)

var errVerifDstFull = errors.New("destination failed: no space left on device")

type verifFailingWriter struct {
	limit int
	n     int
}

func (w *verifFailingWriter) Write(p []byte) (int, error) {
	if w.n+len(p) > w.limit {
		k := w.limit - w.n
		if k < 0 {
			k = 0
		}
		w.n += k
		return k, errVerifDstFull
	}
	w.n += len(p)
	return len(p), nil
}

func Test_VerifReplay_C21BackupDeleteCompressedCopyError(t *testing.T) {
	s, ln := mustNewStore(t)
	defer ln.Close()
	if err := s.Open(); err != nil {
		t.Fatalf("failed to open single-node store: %s", err.Error())
	}
	if err := s.Bootstrap(NewServer(s.ID(), s.Addr(), true)); err != nil {
		t.Fatalf("failed to bootstrap single-node store: %s", err.Error())
	}
	defer s.Close(true)
	if _, err := s.WaitForLeader(10 * time.Second); err != nil {
		t.Fatalf("Error waiting for leader: %s", err)
	}
	if _, _, err := s.Execute(context.Background(), executeRequestFromString(`CREATE TABLE foo (id integer not null primary key, name text)`, false, false)); err != nil {
		t.Fatalf("create: %v", err)
	}
	var sb strings.Builder
	sb.WriteString("INSERT INTO foo(name) VALUES")
	for i := 0; i < 2000; i++ {
		if i > 0 {
			sb.WriteString(",")
		}
		sb.WriteString(fmt.Sprintf("(hex(randomblob(200)))"))
	}
	if _, _, err := s.Execute(context.Background(), executeRequestFromString(sb.String(), false, false)); err != nil {
		t.Fatalf("insert: %v", err)
	}

	for _, compress := range []bool{false, true} {
		w := &verifFailingWriter{limit: 4096}
		br := &proto.BackupRequest{Format: proto.BackupRequest_BACKUP_REQUEST_FORMAT_DELETE, Leader: true, Compress: compress}
		err := s.Backup(context.Background(), br, w)
		if err == nil {
			t.Errorf("failing input: DELETE-format backup, compress=%v, destination fails after %d bytes (%d accepted): Backup returned nil for an incomplete backup", compress, w.limit, w.n)
		}
	}
}
