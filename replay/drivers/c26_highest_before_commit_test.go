package cdc

// Replay driver for property C26, obligation (*Queue).run#assert@set:highestKey[highest-only-after-commit].
// The manager goroutine advances its in-memory highestKey INSIDE the bbolt Update closure, before the
// transaction has committed. When the commit fails (disk full here: bbolt's MaxSize limit stands in for
// ENOSPC) nothing is stored and nothing is persisted, but the in-memory highest index has moved on:
// the retry of the same enqueue - and every enqueue at or below that index - is acknowledged with
// nil and silently dropped.

import (
	"os"
	"path/filepath"
	"testing"
)

func Test_VerifReplay_C26HighestBeforeCommit(t *testing.T) {
	path := filepath.Join(t.TempDir(), "fifo.db")
	q, err := NewQueue(path)
	if err != nil {
		t.Fatalf("NewQueue: %s", err)
	}
	defer q.Close()
	if err := q.Enqueue(&Event{Index: 1, Data: []byte("one")}); err != nil {
		t.Fatalf("enqueue 1: %s", err)
	}
	st, err := os.Stat(path)
	if err != nil {
		t.Fatalf("stat: %s", err)
	}
	big := make([]byte, 1<<20)
	q.db.MaxSize = int(st.Size()) // the disk is full from now on
	if err := q.Enqueue(&Event{Index: 2, Data: big}); err == nil {
		t.Skip("could not make the commit fail")
	} else {
		t.Logf("enqueue of index 2 failed as arranged: %v", err)
	}
	q.db.MaxSize = 0 // space again

	// the producer retries: acknowledged
	if err := q.Enqueue(&Event{Index: 2, Data: big}); err != nil {
		t.Fatalf("retry of enqueue 2 failed: %s", err)
	}
	hk, _ := q.HighestKey()
	if n := q.Len(); n != 2 {
		t.Fatalf("C26 violated: enqueue of index 2 was acknowledged (nil) but the queue holds %d item(s); in-memory highest key %d", n, hk)
	}
}
