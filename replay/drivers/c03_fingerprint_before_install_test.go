package store

// Replay driver for property C03, obligation FSMSnapshot.Persist#... [fingerprint-only-after-install].
// Raft stores a snapshot as: sink := Create(); snapshot.Persist(sink); sink.Close(). rqlite writes the
// clean-snapshot fingerprint (which licenses the fast restart path: keep the SQLite file, skip the
// restore, replay the log after the NEWEST STORED snapshot) from inside Persist, i.e. before
// sink.Close() has installed the snapshot. A crash between the two leaves a fingerprint that matches
// a database file holding everything up to index N next to a snapshot store whose newest snapshot is
// at M < N: the restart takes the fast path and replays M+1..N onto a database that already has them.

import (
	"context"
	"testing"
	"time"

	"github.com/rqlite/rqlite/v10/command/proto"
)

func verifC03Count(t *testing.T, s *Store) int64 {
	t.Helper()
	qr := queryRequestFromString("SELECT COUNT(*) FROM foo", false, false, false)
	qr.Level = proto.ConsistencyLevel_STRONG
	r, _, _, err := s.Query(context.Background(), qr)
	if err != nil {
		t.Fatalf("failed to query store: %s", err.Error())
	}
	if r[0].Error != "" {
		t.Fatalf("query error: %s", r[0].Error)
	}
	return r[0].Values[0].Parameters[0].GetI()
}

func Test_VerifReplay_C03FingerprintBeforeInstall(t *testing.T) {
	s, ln := mustNewStore(t)
	defer ln.Close()
	s.NoSnapshotOnClose = true
	if err := s.Open(); err != nil {
		t.Fatalf("failed to open single-node store: %s", err.Error())
	}
	if err := s.Bootstrap(NewServer(s.ID(), s.Addr(), true)); err != nil {
		t.Fatalf("failed to bootstrap single-node store: %s", err.Error())
	}
	if _, err := s.WaitForLeader(10 * time.Second); err != nil {
		t.Fatalf("Error waiting for leader: %s", err)
	}
	mustExecute(t, s, []string{
		`CREATE TABLE foo (id INTEGER NOT NULL PRIMARY KEY, name TEXT)`,
		`INSERT INTO foo(name) VALUES("fiona")`,
	})
	if err := s.Snapshot(0); err != nil { // full snapshot, installed
		t.Fatalf("failed to snapshot store: %s", err.Error())
	}
	mustExecute(t, s, []string{`INSERT INTO foo(name) VALUES("fiona")`, `INSERT INTO foo(name) VALUES("fiona")`})
	if got := verifC03Count(t, s); got != 3 {
		t.Fatalf("expected 3 rows before the crash, got %d", got)
	}

	// The next snapshot gets as far as Persist returning nil; the process dies before sink.Close().
	fsm := NewFSM(s)
	f, err := fsm.Snapshot()
	if err != nil {
		t.Fatalf("failed to snapshot node: %s", err.Error())
	}
	metas, _ := s.snapshotStore.List()
	cfg := s.raft.GetConfiguration()
	sink, err := s.snapshotStore.Create(1, s.raft.LastIndex(), metas[0].Term, cfg.Configuration(), 1, nil)
	if err != nil {
		t.Fatalf("create sink: %s", err)
	}
	if err := f.Persist(sink); err != nil {
		t.Fatalf("persist: %s", err)
	}
	// -- crash here: no sink.Close(), no Release --
	id, path := s.ID(), s.Path()
	if err := s.Close(true); err != nil {
		t.Fatalf("failed to close single-node store: %s", err.Error())
	}

	s2, ln2 := mustNewStoreAtPathsLn(id, path, false)
	defer ln2.Close()
	s2.NoSnapshotOnClose = true
	if err := s2.Open(); err != nil {
		t.Fatalf("failed to reopen store: %s", err.Error())
	}
	defer s2.Close(true)
	if _, err := s2.WaitForLeader(10 * time.Second); err != nil {
		t.Fatalf("Error waiting for leader: %s", err)
	}
	t.Logf("after restart: restores skipped=%d, restores done=%d", s2.numSnapshotsSkipped.Load(), s2.numSnapshotsStart.Load())
	if got := verifC03Count(t, s2); got != 3 {
		t.Fatalf("C03 violated: 3 rows were applied before the crash, the restarted node holds %d", got)
	}
}
