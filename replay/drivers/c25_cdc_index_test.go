package db

// Replay driver for obligation (*CDCStreamer).CommitHook#ensures[index-carried] (property C25).
// Witness class from the model: the group collected before the commit has Index == idx0 != 0 and
// the group that CommitHook starts afterwards has Index == 0. Concrete input: one log entry
// (Reset(7)) whose request holds two statements and is not a transaction, so SQLite commits
// twice while the entry is applied: both groups of events belong to entry 7.

import (
	"testing"
	"time"

	command "github.com/rqlite/rqlite/v10/command/proto"
)

func Test_VerifReplay_C25SecondCommitKeepsIndex(t *testing.T) {
	db, _ := mustCreateOnDiskDatabaseWAL()
	defer db.Close()
	if _, err := db.ExecuteStringStmt(`CREATE TABLE foo (id INTEGER PRIMARY KEY, name TEXT)`); err != nil {
		t.Fatal(err)
	}
	ch := make(chan *command.CDCIndexedEventGroup, 10)
	streamer, err := NewCDCStreamer(ch, db)
	if err != nil {
		t.Fatal(err)
	}
	if err := db.RegisterPreUpdateHook(streamer.PreupdateHook, nil, false); err != nil {
		t.Fatal(err)
	}
	if err := db.RegisterCommitHook(streamer.CommitHook); err != nil {
		t.Fatal(err)
	}
	streamer.Reset(7)
	req := &command.Request{Statements: []*command.Statement{
		{Sql: `INSERT INTO foo(id, name) VALUES(1, 'a')`},
		{Sql: `INSERT INTO foo(id, name) VALUES(2, 'b')`},
	}}
	if r, err := db.Execute(req, false); err != nil || r[0].GetError() != "" || r[1].GetError() != "" {
		t.Fatalf("execute: %v %v", err, r)
	}
	for n := 1; n <= 2; n++ {
		select {
		case g := <-ch:
			if g.Index != 7 {
				t.Errorf("failing input: log entry 7 = [insert; insert] (no transaction): CDC group %d of the entry (%d event(s), row id %d) is labelled with index %d", n, len(g.Events), g.Events[0].NewRowId, g.Index)
			}
		case <-time.After(2 * time.Second):
			t.Fatalf("driver error: expected CDC group %d", n)
		}
	}
}
