package sql

// Replay driver for the C14 obligations
//   (*Rewriter).Visit#ensures[implicit-now-made-concrete]
//   (*Rewriter).Visit#ensures[strftime-implicit-now-made-concrete]
//   ContainsTime|ContainsRandom#incl[<fn>.spaced]
// Witness classes from the models: a call of date/time/datetime/julianday/unixepoch with no
// argument at all (SQLite: the time value defaults to 'now'); strftime with only a format; a call
// written with white space between the function name and its parenthesis (the substring pre-filter
// looks for "name("). Each statement goes through sql.Process as on the write endpoints; a
// statement that still contains the non-deterministic call afterwards is replicated as is.

import (
	"os"
	"strings"
	"testing"

	"github.com/rqlite/rqlite/v10/command/proto"
)

func verifC14Check(t *testing.T, class string, stmts []string, leftover func(out string) bool) {
	for _, s := range stmts {
		in := []*proto.Statement{{Sql: s}}
		if err := Process(in, true, true); err != nil {
			t.Fatalf("process %q: %v", s, err)
		}
		if leftover(strings.ToLower(in[0].Sql)) {
			t.Errorf("failing input (%s): %q is replicated as %q: the non-deterministic call is still there", class, s, in[0].Sql)
		}
	}
}

func Test_VerifReplay_C14Rewrite(t *testing.T) {
	obl := os.Getenv("GOVC_OBLIGATION")
	hasCall := func(names ...string) func(string) bool {
		return func(out string) bool {
			for _, n := range names {
				if strings.Contains(out, n+"(") || strings.Contains(out, n+" (") {
					return true
				}
			}
			return false
		}
	}
	switch {
	case strings.Contains(obl, "strftime-implicit-now"):
		verifC14Check(t, "strftime with only a format", []string{`INSERT INTO t(v) VALUES(strftime('%s'))`, `INSERT INTO t(v) VALUES(STRFTIME('%Y-%m-%d %H:%M:%f'))`},
			func(out string) bool { return strings.Contains(out, "strftime('%s')") || strings.Contains(out, "strftime('%y-%m-%d %h:%m:%f')") })
	case strings.Contains(obl, "implicit-now"):
		verifC14Check(t, "time value left out", []string{`INSERT INTO t(v) VALUES(datetime())`, `INSERT INTO t(v) VALUES(date())`, `INSERT INTO t(v) VALUES(time())`, `INSERT INTO t(v) VALUES(julianday())`, `INSERT INTO t(v) VALUES(unixepoch())`},
			func(out string) bool {
				for _, n := range []string{"datetime()", "date()", "time()", "julianday()", "unixepoch()"} {
					if strings.Contains(out, n) {
						return true
					}
				}
				return false
			})
	default: // the ".spaced" language-inclusion obligations
		verifC14Check(t, "white space before the parenthesis", []string{`INSERT INTO t(v) VALUES(random ())`, `INSERT INTO t(v) VALUES(randomblob (8))`, `INSERT INTO t(v) VALUES(datetime ('now'))`, `INSERT INTO t(v) VALUES(date ('now'))`, `INSERT INTO t(v) VALUES(unixepoch ('now'))`, `INSERT INTO t(v) VALUES(strftime ('%s', 'now'))`},
			func(out string) bool { return hasCall("random", "randomblob")(out) || strings.Contains(out, "'now'") })
	}
}
