package store

// Replay driver for obligation (*Store).waitForLinearizableRead#assert@s.fsmTarget.Subscribe[progress]
// (property C38). Witness: the latest committed log entry is not a command entry (here a barrier),
// so it is never delivered to the FSM; the linearizable read waits for that index.

import (
	"context"
	"testing"
	"time"

	"github.com/rqlite/rqlite/v10/command/proto"
)

func Test_VerifReplay_C38LinearizableAfterBarrier(t *testing.T) {
	s, ln := mustNewStore(t)
	defer ln.Close()
	if err := s.Open(); err != nil {
		t.Fatalf("open: %v", err)
	}
	defer s.Close(true)
	if err := s.Bootstrap(NewServer(s.ID(), s.Addr(), true)); err != nil {
		t.Fatalf("bootstrap: %v", err)
	}
	if _, err := s.WaitForLeader(10 * time.Second); err != nil {
		t.Fatalf("leader: %v", err)
	}
	if _, _, err := s.Execute(context.Background(), executeRequestFromString(`CREATE TABLE foo (id INTEGER NOT NULL PRIMARY KEY, name TEXT)`, false, false)); err != nil {
		t.Fatalf("execute: %v", err)
	}
	// a strong read, so that the next linearizable read is not upgraded to a strong one
	qr := queryRequestFromString("SELECT * FROM foo", false, false, false)
	qr.Level = proto.ConsistencyLevel_STRONG
	if _, _, _, err := s.Query(context.Background(), qr); err != nil {
		t.Fatalf("strong query: %v", err)
	}
	// a committed entry that does not change the database and is not delivered to the FSM
	if err := s.Barrier(); err != nil {
		t.Fatalf("barrier: %v", err)
	}
	qr = queryRequestFromString("SELECT * FROM foo", false, false, false)
	qr.Level = proto.ConsistencyLevel_LINEARIZABLE
	qr.LinearizableTimeout = int64(2 * time.Second)
	start := time.Now()
	_, level, _, err := s.Query(context.Background(), qr)
	if err != nil {
		t.Errorf("failing input: single healthy leader; write, strong read, Barrier(), then a linearizable read (timeout 2s) with no further write: the read failed after %v with %q (level %v)", time.Since(start).Round(time.Millisecond), err, level)
	}
}
