package store

// Replay driver (store level) for property C05, obligation
// (*wal.CompactingFrameScanner).scan#assert@return[open-transaction-only-for-frames-in-the-valid-prefix]:
// after ONE large transactional request that fails at its end (spilled to the WAL, rolled back) and one
// further committed write, every incremental snapshot failed with "open transaction at end of WAL file"
// until the process was restarted. The driver also checks that the snapshot taken restores to the live data.

import (
	"context"
	"path/filepath"
	"fmt"
	"strings"
	"testing"
	"time"

	"github.com/rqlite/rqlite/v10/command/proto"
	"github.com/rqlite/rqlite/v10/db"
	"github.com/rqlite/rqlite/v10/snapshot"
)

func Test_VerifReplay_C05StoreSnapshotAfterRolledBackSpill(t *testing.T) {
	s, ln := mustNewStore(t)
	defer ln.Close()
	if err := s.Open(); err != nil {
		t.Fatalf("open: %s", err)
	}
	defer s.Close(true)
	s.NoSnapshotOnClose = true
	if err := s.Bootstrap(NewServer(s.ID(), s.Addr(), true)); err != nil {
		t.Fatalf("bootstrap: %s", err)
	}
	if _, err := s.WaitForLeader(10 * time.Second); err != nil {
		t.Fatalf("leader: %s", err)
	}
	mustExecute(t, s, []string{`CREATE TABLE foo (id INTEGER NOT NULL PRIMARY KEY, v TEXT)`, `INSERT INTO foo(v) VALUES('a')`})
	if err := s.Snapshot(0); err != nil {
		t.Fatalf("first snapshot: %s", err)
	}
	big := strings.Repeat("x", 1<<20)
	var stmts []string
	for i := 0; i < 12; i++ {
		stmts = append(stmts, fmt.Sprintf("INSERT INTO foo(v) VALUES('%s')", big))
	}
	stmts = append(stmts, "INSERT INTO nosuchtable(v) VALUES(1)")
	er := executeRequestFromStrings(stmts, false, true)
	r, _, err := s.Execute(context.Background(), er)
	t.Logf("big tx: err=%v last=%q", err, r[len(r)-1].GetE().GetError())
	_ = proto.ConsistencyLevel_NONE
	mustExecute(t, s, []string{`INSERT INTO foo(v) VALUES('b')`})
	for i := 0; i < 3; i++ {
		err = s.Snapshot(0)
		t.Logf("snapshot attempt %d after rolled-back spill: %v", i, err)
		if err == nil {
			live, err := s.db.QueryStringStmt("SELECT COUNT(*), SUM(LENGTH(v)) FROM foo")
			if err != nil {
				t.Fatalf("query: %s", err)
			}
			metas, _ := s.snapshotStore.List()
			_, rc, err := s.snapshotStore.Open(metas[0].ID)
			if err != nil {
				t.Fatalf("open snapshot: %s", err)
			}
			defer rc.Close()
			p := filepath.Join(t.TempDir(), "restored.db")
			if _, err := snapshot.Restore(rc, p); err != nil {
				t.Fatalf("restore: %s", err)
			}
			d, err := db.Open(p, false, false)
			if err != nil {
				t.Fatalf("open restored: %s", err)
			}
			defer d.Close()
			restored, err := d.QueryStringStmt("SELECT COUNT(*), SUM(LENGTH(v)) FROM foo")
			if err != nil {
				t.Fatalf("query restored: %s", err)
			}
			if asJSON(live) != asJSON(restored) {
				t.Fatalf("restored snapshot differs from live data: %s vs %s", asJSON(restored), asJSON(live))
			}
			return
		}
		mustExecute(t, s, []string{`INSERT INTO foo(v) VALUES('c')`})
	}
	t.Fatalf("snapshots keep failing: %v", err)
}
