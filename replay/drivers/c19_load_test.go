package auth

// Replay driver for obligation (*CredentialsStore).Load#loop1-keep[last-wins-pw] (property C19).
// Witness class given by the solver model: an entry that omits "password" (and/or "perms")
// following an entry that defines them. The oracle is the property statement: each entry is a
// definition of its own fields; the last definition of a user wins.

import (
	"strings"
	"testing"
)

func Test_VerifReplay_C19Load(t *testing.T) {
	cases := []struct {
		json           string
		user, pw, perm string
		want           bool
	}{
		{`[{"username":"a","password":"x","perms":["all"]},{"username":"b"}]`, "b", "x", "execute", false},
		{`[{"username":"a","password":"x","perms":["all"]},{"username":"b","password":"y"}]`, "b", "y", "execute", false},
		{`[{"username":"a","password":"x","perms":["query"]},{"username":"a","perms":["query"]}]`, "a", "x", "query", false},
		{`[{"username":"a","password":"x","perms":["query"]},{"username":"a","password":"z","perms":["query"]}]`, "a", "z", "query", true},
	}
	for _, c := range cases {
		s := NewCredentialsStore()
		if err := s.Load(strings.NewReader(c.json)); err != nil {
			t.Fatalf("load: %v", err)
		}
		if got := s.AA(c.user, c.pw, c.perm); got != c.want {
			t.Errorf("failing input: credentials file %s: AA(%q,%q,%q) = %v, the documented rule gives %v", c.json, c.user, c.pw, c.perm, got, c.want)
		}
	}
}
