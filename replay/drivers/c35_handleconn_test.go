package cluster

// Replay drivers for obligations of (*Service).handleConn (properties C35 and C18):
//   #make[make([]byte,sz)]      length prefix read off the wire is used unchecked as an allocation size
//   #nil[br]                    BACKUP_STREAM command without a BackupRequest
//   #assert@s.db.Backup[authz]  BACKUP_STREAM streams the backup after answering "unauthorized"
// The real handleConn is driven through a net.Pipe with the byte stream of the witness class.

import (
	"bytes"
	"encoding/binary"
	"fmt"
	"io"
	"net"
	"testing"
	"time"

	"github.com/rqlite/rqlite/v10/cluster/proto"
	command "github.com/rqlite/rqlite/v10/command/proto"
	pb "google.golang.org/protobuf/proto"
)

func verifServe(t *testing.T, cred CredentialStore, db *mockDatabase, send []byte) (recv []byte, panicked any) {
	t.Helper()
	ln, err := net.Listen("tcp", "127.0.0.1:0")
	if err != nil {
		t.Fatal(err)
	}
	defer ln.Close()
	s := New(ln, db, mustNewMockManager(), cred)
	client, server := net.Pipe()
	done := make(chan struct{})
	go func() {
		defer close(done)
		defer func() { panicked = recover() }()
		s.handleConn(server)
	}()
	go func() {
		client.Write(send)
	}()
	client.SetReadDeadline(time.Now().Add(2 * time.Second))
	recv, _ = io.ReadAll(client)
	client.Close()
	select {
	case <-done:
	case <-time.After(3 * time.Second):
	}
	return recv, panicked
}

func verifFrame(m pb.Message) []byte {
	p, err := pb.Marshal(m)
	if err != nil {
		panic(err)
	}
	b := make([]byte, 8)
	binary.LittleEndian.PutUint64(b, uint64(len(p)))
	return append(b, p...)
}

func Test_VerifReplay_C35FrameAlloc(t *testing.T) {
	_, p := verifServe(t, nil, mustNewMockDatabase(), []byte{0xff, 0xff, 0xff, 0xff, 0xff, 0xff, 0xff, 0x7f})
	if p != nil {
		t.Errorf("failing input: 8 bytes ff ff ff ff ff ff ff 7f on the inter-node port: handler goroutine panicked: %v", p)
	}
}

func Test_VerifReplay_C35NilBackupRequest(t *testing.T) {
	_, p := verifServe(t, nil, mustNewMockDatabase(), verifFrame(&proto.Command{Type: proto.Command_COMMAND_TYPE_BACKUP_STREAM}))
	if p != nil {
		t.Errorf("failing input: BACKUP_STREAM command without BackupRequest: handler goroutine panicked: %v", p)
	}
}

func Test_VerifReplay_C18BackupStreamUnauthorized(t *testing.T) {
	db := mustNewMockDatabase()
	secret := []byte("SECRET-DATABASE-CONTENT")
	db.backupFn = func(br *command.BackupRequest, dst io.Writer) error {
		dst.Write(secret)
		return nil
	}
	cred := &mockCredentialStore{aaFunc: func(u, p, perm string) bool { return false }}
	cmd := &proto.Command{
		Type:    proto.Command_COMMAND_TYPE_BACKUP_STREAM,
		Request: &proto.Command_BackupRequest{BackupRequest: &command.BackupRequest{Format: command.BackupRequest_BACKUP_REQUEST_FORMAT_BINARY}},
	}
	recv, p := verifServe(t, cred, db, verifFrame(cmd))
	if p != nil {
		t.Errorf("failing input: handler panicked: %v", p)
	}
	if bytes.Contains(recv, secret) {
		t.Errorf("failing input: BACKUP_STREAM with credentials the store refuses: peer received %q (database content disclosed after the refusal)", fmt.Sprint(string(recv)))
	}
}
