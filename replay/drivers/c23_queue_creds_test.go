package http

// Replay driver for obligation (*Service).runQueue#assert@s.proxy.Execute[caller-creds]
// (properties C20/C23). Witness: a credential store is configured, the node is a follower (the
// local store answers ErrNotLeader), and an authorized user posts a queued write. The write
// must reach the leader with the caller's credentials; with nil credentials a leader that has
// authentication enabled refuses it ("unauthorized") and the queue retries forever.

import (
	"context"
	"fmt"
	"net/http"
	"strings"
	"sync"
	"testing"
	"time"

	"github.com/rqlite/rqlite/v10/cluster/proto"
	command "github.com/rqlite/rqlite/v10/command/proto"
	"github.com/rqlite/rqlite/v10/proxy"
	"github.com/rqlite/rqlite/v10/store"
)

type verifCredCluster struct {
	mockClusterService
	mu    sync.Mutex
	calls int
	creds *proto.Credentials
}

func (m *verifCredCluster) Execute(ctx context.Context, er *command.ExecuteRequest, addr string, creds *proto.Credentials, t time.Duration, r int) ([]*command.ExecuteQueryResponse, uint64, error) {
	m.mu.Lock()
	defer m.mu.Unlock()
	m.calls++
	m.creds = creds
	return []*command.ExecuteQueryResponse{}, 1, nil
}

type verifCreds struct{}

func (verifCreds) AA(username, password, perm string) bool {
	return username == "alice" && password == "secret"
}

func Test_VerifReplay_C23QueueCreds(t *testing.T) {
	m := &MockStore{leaderAddr: "leader:1234"}
	m.executeFn = func(er *command.ExecuteRequest) ([]*command.ExecuteQueryResponse, uint64, error) {
		return nil, 0, store.ErrNotLeader
	}
	c := &verifCredCluster{}
	c.apiAddr = "http://leader:4001"
	s := New("127.0.0.1:0", m, c, proxy.New(m, c), verifCreds{})
	if err := s.Start(); err != nil {
		t.Fatalf("start: %v", err)
	}
	defer s.Close()
	req, _ := http.NewRequest("POST", fmt.Sprintf("http://%s/db/execute?queue&wait&timeout=5s", s.Addr().String()), strings.NewReader(`["INSERT INTO foo(id) VALUES(1)"]`))
	req.SetBasicAuth("alice", "secret")
	req.Header.Set("Content-Type", "application/json")
	resp, err := http.DefaultClient.Do(req)
	if err != nil {
		t.Fatalf("post: %v", err)
	}
	resp.Body.Close()
	deadline := time.Now().Add(5 * time.Second)
	for time.Now().Before(deadline) {
		c.mu.Lock()
		n := c.calls
		c.mu.Unlock()
		if n > 0 {
			break
		}
		time.Sleep(20 * time.Millisecond)
	}
	c.mu.Lock()
	defer c.mu.Unlock()
	if c.calls == 0 {
		t.Fatalf("queued write was never forwarded (HTTP status %d)", resp.StatusCode)
	}
	if c.creds == nil || c.creds.GetUsername() != "alice" {
		t.Errorf("failing input: credential store configured, follower node, user alice posts /db/execute?queue: the write is forwarded to the leader with credentials %v instead of the caller's (a leader with authentication enabled answers \"unauthorized\" and the queue retries forever)", c.creds)
	}
}
