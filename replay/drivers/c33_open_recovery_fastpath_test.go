package store

// Replay driver for obligation (*Store).Open#assert@RecoverNode[no-fast-path-with-recovery]
// (property C33). Witness class from the model: the clean-snapshot fast path was chosen
// (raftConfig.NoSnapshotRestoreOnStart = true, removeDBFiles = false) and then peers.json exists,
// so RecoverNode runs while the fast path is in force. Concrete history (found by an independent
// sub-agent, reduced here): 8 writes, snapshot, 4 writes, shutdown without a final snapshot
// (a crash), restart with a single-node peers.json. RecoverNode builds a correct snapshot with all
// 12 rows and deletes the log; Open then keeps the old 8-row SQLite file, deletes its WAL and tells
// raft not to restore: the 4 post-snapshot rows are gone from the live database.

import (
	"context"
	"fmt"
	"path/filepath"
	"testing"
	"time"

	"github.com/rqlite/rqlite/v10/command/proto"
)

func Test_VerifReplay_C33RecoveryAfterFastPath(t *testing.T) {
	s0, ln0 := mustNewStore(t)
	defer ln0.Close()
	s0.NoSnapshotOnClose = true
	if err := s0.Open(); err != nil {
		t.Fatalf("open: %v", err)
	}
	if err := s0.Bootstrap(NewServer(s0.ID(), s0.Addr(), true)); err != nil {
		t.Fatalf("bootstrap: %v", err)
	}
	if _, err := s0.WaitForLeader(10 * time.Second); err != nil {
		t.Fatalf("leader: %v", err)
	}
	exec := func(s *Store, q string) {
		if _, _, err := s.Execute(context.Background(), executeRequestFromStrings([]string{q}, false, false)); err != nil {
			t.Fatalf("execute %q: %v", q, err)
		}
	}
	count := func(s *Store) int64 {
		qr := queryRequestFromString("SELECT COUNT(*) FROM foo", false, false, false)
		qr.Level = proto.ConsistencyLevel_STRONG
		r, _, _, err := s.Query(context.Background(), qr)
		if err != nil || r[0].Error != "" {
			t.Fatalf("count: %v %v", err, r)
		}
		return r[0].Values[0].Parameters[0].GetI()
	}
	exec(s0, `CREATE TABLE foo (id INTEGER NOT NULL PRIMARY KEY, name TEXT)`)
	for i := 0; i < 8; i++ {
		exec(s0, `INSERT INTO foo(name) VALUES("fiona")`)
	}
	if err := s0.Snapshot(0); err != nil {
		t.Fatalf("snapshot: %v", err)
	}
	for i := 0; i < 4; i++ {
		exec(s0, `INSERT INTO foo(name) VALUES("fiona")`)
	}
	if got := count(s0); got != 12 {
		t.Fatalf("expected 12 rows before shutdown, got %d", got)
	}
	id, path := s0.ID(), s0.Path()
	if err := s0.Close(true); err != nil {
		t.Fatalf("close: %v", err)
	}

	s1, ln1 := mustNewStoreAtPathsLn(id, path, false)
	defer ln1.Close()
	s1.NoSnapshotOnClose = true
	mustWriteFile(filepath.Join(path, "/raft/peers.json"), fmt.Sprintf(`[{"id": "%s","address": "%s"}]`, id, ln1.Addr().String()))
	if err := s1.Open(); err != nil {
		t.Fatalf("open with peers.json: %v", err)
	}
	defer s1.Close(true)
	if _, err := s1.WaitForLeader(10 * time.Second); err != nil {
		t.Fatalf("leader after recovery: %v", err)
	}
	if got := count(s1); got != 12 {
		t.Errorf("failing history: 8 writes, snapshot, 4 writes, crash, recovery with peers.json: the recovered node holds %d rows, 12 were applied before the crash (restore skipped on open: numSnapshotsSkipped=%d)", got, s1.numSnapshotsSkipped.Load())
	}
}
