package store

// Replay driver for property C04 (snapshot store + log rebuilds the applied state).
// History: full snapshot; write; incremental snapshot whose Persist is not invoked (as Raft does
// while a configuration change is pending) -> the compacted WAL stays in the staging directory;
// then something that makes the next snapshot a FULL one (a LOAD here); full snapshot; write;
// incremental snapshot. If the WAL staged BEFORE the full snapshot is still in the staging
// directory, it is packaged AFTER the full snapshot and replayed on top of it at restore time.

import (
	"context"
	"fmt"
	"os"
	"path/filepath"
	"testing"
	"time"

	"github.com/rqlite/rqlite/v10/db"
	"github.com/rqlite/rqlite/v10/snapshot"
)

func verifC04RestoreNewest(t *testing.T, s *Store) *db.DB {
	t.Helper()
	metas, err := s.snapshotStore.List()
	if err != nil || len(metas) == 0 {
		t.Fatalf("failed to list snapshots: %v", err)
	}
	_, rc, err := s.snapshotStore.Open(metas[0].ID)
	if err != nil {
		t.Fatalf("failed to open snapshot: %s", err)
	}
	defer rc.Close()
	p := filepath.Join(t.TempDir(), "restored.db")
	if _, err := snapshot.Restore(rc, p); err != nil {
		t.Fatalf("restore of newest snapshot failed: %s", err)
	}
	d, err := db.Open(p, false, false)
	if err != nil {
		t.Fatalf("failed to open restored database: %s", err)
	}
	return d
}

func Test_VerifReplay_C04StaleStagedWAL(t *testing.T) {
	t.Run("full-needed", func(t *testing.T) { verifC04StaleStagedWAL(t, false) })
	t.Run("load", func(t *testing.T) { verifC04StaleStagedWAL(t, true) })
	t.Run("install", verifC04StaleStagedWALInstall)
}

// Replay driver for fsmSnapshot#ensures[lost-segment-needs-full]: the WAL has been checkpointed into
// the database (and truncated) when keeping its compacted copy fails (here: the checksum file
// cannot be created). The frames are then in the database only; an incremental snapshot taken
// afterwards continues a chain that misses them.
func Test_VerifReplay_C04LostSegment(t *testing.T) {
	s, ln := mustNewStore(t)
	defer ln.Close()
	if err := s.Open(); err != nil {
		t.Fatalf("failed to open single-node store: %s", err.Error())
	}
	defer s.Close(true)
	s.NoSnapshotOnClose = true
	if err := s.Bootstrap(NewServer(s.ID(), s.Addr(), true)); err != nil {
		t.Fatalf("failed to bootstrap single-node store: %s", err.Error())
	}
	if _, err := s.WaitForLeader(10 * time.Second); err != nil {
		t.Fatalf("Error waiting for leader: %s", err)
	}
	mustExecute(t, s, []string{
		`CREATE TABLE foo (id INTEGER NOT NULL PRIMARY KEY, name TEXT)`,
		`CREATE TABLE bar (id INTEGER NOT NULL PRIMARY KEY, name TEXT)`,
		`INSERT INTO foo(id, name) VALUES(1, "v0")`,
	})
	if err := s.Snapshot(0); err != nil { // full
		t.Fatalf("failed to snapshot store: %s", err.Error())
	}

	fsm := NewFSM(s)
	failed := false
	for i := 0; i < 50 && !failed; i++ {
		mustExecute(t, s, []string{fmt.Sprintf(`UPDATE foo SET name="w%d" WHERE id=1`, i)})
		stop := make(chan struct{})
		done := make(chan struct{})
		go func() {
			// the disk fault: as soon as the new segment appears, its checksum file cannot be created
			defer close(done)
			for {
				select {
				case <-stop:
					return
				default:
				}
				if m, _ := filepath.Glob(filepath.Join(s.walStagingDir, "*.wal")); len(m) > 0 {
					os.Mkdir(m[len(m)-1]+".crc32", 0755)
					return
				}
			}
		}()
		f, err := fsm.Snapshot()
		close(stop)
		<-done
		if err != nil {
			failed = true
			break
		}
		// the fault came too late this time: store the snapshot normally and try again
		metas, _ := s.snapshotStore.List()
		cfg := s.raft.GetConfiguration()
		sink, err := s.snapshotStore.Create(1, metas[0].Index+1, metas[0].Term, cfg.Configuration(), 1, nil)
		if err != nil {
			t.Fatalf("create sink: %s", err)
		}
		if err := f.Persist(sink); err != nil {
			t.Fatalf("persist: %s", err)
		}
		if err := sink.Close(); err != nil {
			t.Fatalf("close sink: %s", err)
		}
		f.Release()
	}
	if !failed {
		t.Skip("could not make the segment's Close fail in 50 attempts")
	}

	// a later write elsewhere, and an incremental snapshot through the FSM and a sink
	mustExecute(t, s, []string{`INSERT INTO bar(id, name) VALUES(1, "later")`})
	f, err := fsm.Snapshot()
	if err != nil {
		t.Fatalf("failed to snapshot node: %s", err.Error())
	}
	metas, _ := s.snapshotStore.List()
	cfg := s.raft.GetConfiguration()
	sink, err := s.snapshotStore.Create(1, metas[0].Index+1000, metas[0].Term, cfg.Configuration(), 1, nil)
	if err != nil {
		t.Fatalf("create sink: %s", err)
	}
	if err := f.Persist(sink); err != nil {
		t.Fatalf("persist: %s", err)
	}
	if err := sink.Close(); err != nil {
		t.Fatalf("close sink: %s", err)
	}
	f.Release()

	live, err := s.db.QueryStringStmt("SELECT * FROM foo")
	if err != nil {
		t.Fatalf("failed to query: %s", err)
	}
	d := verifC04RestoreNewest(t, s)
	defer d.Close()
	restored, err := d.QueryStringStmt("SELECT * FROM foo")
	if err != nil {
		t.Fatalf("failed to query restored database: %s", err)
	}
	if exp, got := asJSON(live), asJSON(restored); exp != got {
		t.Fatalf("C04 violated: newest snapshot restores to a different database than the applied one\nlive:     %s\nrestored: %s", exp, got)
	}
}

// The same with a snapshot installed from a leader in place of the full snapshot: Raft writes the
// received snapshot into the node's snapshot store through a Sink and then calls FSM.Restore on it.
func verifC04StaleStagedWALInstall(t *testing.T) {
	s, ln := mustNewStore(t)
	defer ln.Close()
	if err := s.Open(); err != nil {
		t.Fatalf("failed to open single-node store: %s", err.Error())
	}
	defer s.Close(true)
	s.NoSnapshotOnClose = true
	if err := s.Bootstrap(NewServer(s.ID(), s.Addr(), true)); err != nil {
		t.Fatalf("failed to bootstrap single-node store: %s", err.Error())
	}
	if _, err := s.WaitForLeader(10 * time.Second); err != nil {
		t.Fatalf("Error waiting for leader: %s", err)
	}
	mustExecute(t, s, []string{
		`CREATE TABLE foo (id INTEGER NOT NULL PRIMARY KEY, name TEXT)`,
		`INSERT INTO foo(id, name) VALUES(1, "v0")`,
	})
	if err := s.Snapshot(0); err != nil { // full
		t.Fatalf("failed to snapshot store: %s", err.Error())
	}
	mustExecute(t, s, []string{`UPDATE foo SET name="v1" WHERE id=1`})
	fsm := NewFSM(s)
	f, err := fsm.Snapshot()
	if err != nil {
		t.Fatalf("failed to snapshot node: %s", err.Error())
	}
	f.Release() // persist not invoked: WAL stays staged

	// "InstallSnapshot": a full snapshot of another database arrives.
	src := mustCopyFileToTempFile(filepath.Join("testdata", "wal-enabled.sqlite")) // a WAL-mode database, as every rqlite snapshot is
	streamer, err := snapshot.NewSnapshotStreamer(src)
	if err != nil {
		t.Fatalf("streamer: %s", err)
	}
	if err := streamer.Open(); err != nil {
		t.Fatalf("streamer open: %s", err)
	}
	cfg := s.raft.GetConfiguration()
	if err := cfg.Error(); err != nil {
		t.Fatalf("configuration: %s", err)
	}
	sink, err := s.snapshotStore.Create(1, s.raft.LastIndex()+100, 2, cfg.Configuration(), 1, nil)
	if err != nil {
		t.Fatalf("create sink: %s", err)
	}
	if err := snapshot.NewStateReader(streamer).Persist(sink); err != nil {
		t.Fatalf("persist into sink: %s", err)
	}
	if err := sink.Close(); err != nil {
		t.Fatalf("close sink: %s", err)
	}
	_, rc, err := s.snapshotStore.Open(sink.ID())
	if err != nil {
		t.Fatalf("open installed snapshot: %s", err)
	}
	if err := fsm.Restore(rc); err != nil {
		t.Fatalf("restore: %s", err)
	}

	// A later incremental snapshot. Bypass Raft's index bookkeeping: snapshot through the FSM and a sink.
	mustExecuteDirect(t, s, `CREATE TABLE bar (id INTEGER NOT NULL PRIMARY KEY)`)
	f, err = fsm.Snapshot()
	if err != nil {
		t.Fatalf("failed to snapshot node: %s", err.Error())
	}
	sink, err = s.snapshotStore.Create(1, s.raft.LastIndex()+200, 2, cfg.Configuration(), 1, nil)
	if err != nil {
		t.Fatalf("create sink: %s", err)
	}
	if err := f.Persist(sink); err != nil {
		t.Fatalf("persist: %s", err)
	}
	if err := sink.Close(); err != nil {
		t.Fatalf("close sink: %s", err)
	}
	f.Release()

	d := verifC04RestoreNewest(t, s)
	defer d.Close()
	var live, restored []any
	for _, q := range []string{"PRAGMA integrity_check", "SELECT name, sql FROM sqlite_master ORDER BY name", "SELECT * FROM foo"} {
		l, err := s.db.QueryStringStmt(q)
		if err != nil {
			t.Fatalf("failed to query: %s", err)
		}
		r, err := d.QueryStringStmt(q)
		if err != nil {
			t.Fatalf("failed to query restored database: %s", err)
		}
		live, restored = append(live, l), append(restored, r)
	}
	if exp, got := asJSON(live), asJSON(restored); exp != got {
		t.Fatalf("C04 violated: newest snapshot restores to a different database than the applied one\nlive:     %s\nrestored: %s", exp, got)
	}
}

func mustExecuteDirect(t *testing.T, s *Store, stmt string) {
	t.Helper()
	r, err := s.db.Execute(executeRequestFromString(stmt, false, false).Request, false)
	if err != nil || r[0].GetError() != "" {
		t.Fatalf("failed to execute %s: %v %s", stmt, err, r[0].GetError())
	}
}

func verifC04StaleStagedWAL(t *testing.T, load bool) {
	s, ln := mustNewStore(t)
	defer ln.Close()
	if err := s.Open(); err != nil {
		t.Fatalf("failed to open single-node store: %s", err.Error())
	}
	defer s.Close(true)
	s.NoSnapshotOnClose = true
	if err := s.Bootstrap(NewServer(s.ID(), s.Addr(), true)); err != nil {
		t.Fatalf("failed to bootstrap single-node store: %s", err.Error())
	}
	if _, err := s.WaitForLeader(10 * time.Second); err != nil {
		t.Fatalf("Error waiting for leader: %s", err)
	}

	mustExecute(t, s, []string{
		`CREATE TABLE foo (id INTEGER NOT NULL PRIMARY KEY, name TEXT)`,
		`INSERT INTO foo(id, name) VALUES(1, "v0")`,
	})
	if err := s.Snapshot(0); err != nil { // full
		t.Fatalf("failed to snapshot store: %s", err.Error())
	}

	// Incremental snapshot whose persist is not invoked: the compacted WAL (name = "v1") stays staged.
	mustExecute(t, s, []string{`UPDATE foo SET name="v1" WHERE id=1`})
	fsm := NewFSM(s)
	f, err := fsm.Snapshot()
	if err != nil {
		t.Fatalf("failed to snapshot node: %s", err.Error())
	}
	f.Release()
	if wals, _ := s.StagedWALs(); len(wals) != 1 {
		t.Fatalf("expected 1 staged WAL, got %d", len(wals))
	}

	// The row moves on, then the next snapshot is made a full one.
	mustExecute(t, s, []string{`UPDATE foo SET name="v2" WHERE id=1`})
	if load {
		// a database load through Raft: the FSM marks the next snapshot as a full one
		if err := s.Load(context.Background(), loadRequestFromFile(filepath.Join("testdata", "load.sqlite"))); err != nil {
			t.Fatalf("failed to load SQLite file: %s", err.Error())
		}
	} else if err := s.snapshotStore.SetDueNext(snapshot.Full); err != nil {
		t.Fatalf("failed to set due next: %s", err)
	}
	if err := s.Snapshot(0); err != nil { // full, holds v2
		t.Fatalf("failed to snapshot store: %s", err.Error())
	}

	// One more write elsewhere and an incremental snapshot.
	mustExecute(t, s, []string{`CREATE TABLE bar (id INTEGER NOT NULL PRIMARY KEY)`})
	if err := s.Snapshot(0); err != nil {
		t.Fatalf("failed to snapshot store: %s", err.Error())
	}

	live, _, _, err := s.Query(context.Background(), queryRequestFromString("SELECT * FROM foo", false, false, false))
	if err != nil {
		t.Fatalf("failed to query: %s", err)
	}
	d := verifC04RestoreNewest(t, s)
	defer d.Close()
	restored, err := d.QueryStringStmt("SELECT * FROM foo")
	if err != nil {
		t.Fatalf("failed to query restored database: %s", err)
	}
	if exp, got := asJSON(live), asJSON(restored); exp != got {
		t.Fatalf("C04 violated: newest snapshot restores to a different database than the applied one\nlive:     %s\nrestored: %s", exp, got)
	}
}
