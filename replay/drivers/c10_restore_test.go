package snapshot

// Replay drivers for the Restore obligations of property C10.
//  - #nil[SizeBytes] / #nil[Crc32]: a stream whose well-formed protobuf header is a Full snapshot
//    without its DbHeader makes Restore dereference nil (crash of the restoring node).
//  - assert@io.CopyN[db-through-crc] / [wal-through-crc]: a header size >= 2^63 becomes a negative
//    count in int64(size); io.CopyN then copies nothing and reports success, so with Crc32 == 0
//    (the CRC of no bytes) a header that does not match the data is accepted and an empty
//    database is restored.

import (
	"bytes"
	"encoding/binary"
	"os"
	"path/filepath"
	"testing"

	"github.com/rqlite/rqlite/v10/snapshot/proto"
)

func verifC10Stream(t *testing.T, hdr *proto.SnapshotHeader, data []byte) *bytes.Buffer {
	hb, err := marshalSnapshotHeader(hdr)
	if err != nil {
		t.Fatalf("marshal: %v", err)
	}
	var buf bytes.Buffer
	var l [HeaderSizeLen]byte
	binary.BigEndian.PutUint32(l[:], uint32(len(hb)))
	buf.Write(l[:])
	buf.Write(hb)
	buf.Write(data)
	return &buf
}

func Test_VerifReplay_C10RestoreNilDbHeader(t *testing.T) {
	hdr := &proto.SnapshotHeader{FormatVersion: 1, Payload: &proto.SnapshotHeader_Full{Full: &proto.FullSnapshot{}}}
	buf := verifC10Stream(t, hdr, nil)
	defer func() {
		if r := recover(); r != nil {
			t.Errorf("failing input: Full snapshot header without DbHeader: Restore panicked: %v", r)
		}
	}()
	if _, err := Restore(buf, filepath.Join(t.TempDir(), "out.db")); err == nil {
		t.Errorf("failing input: Full snapshot header without DbHeader restored without error")
	}
}

func Test_VerifReplay_C10RestoreHugeSize(t *testing.T) {
	data, err := os.ReadFile("testdata/db-and-wals/full2.db")
	if err != nil {
		data = bytes.Repeat([]byte{0xAB}, 4096)
	}
	hdr := &proto.SnapshotHeader{FormatVersion: 1, Payload: &proto.SnapshotHeader_Full{Full: &proto.FullSnapshot{
		DbHeader: &proto.Header{SizeBytes: 1 << 63, Crc32: 0},
	}}}
	buf := verifC10Stream(t, hdr, data)
	dst := filepath.Join(t.TempDir(), "out.db")
	n, err := Restore(buf, dst)
	if err == nil {
		fi, _ := os.Stat(dst)
		t.Errorf("failing input: header says the database has 2^63 bytes (CRC 0), stream carries %d: Restore succeeded (read %d bytes) and restored a %d-byte database", len(data), n, fi.Size())
	}
}

func Test_VerifReplay_C10RestoreHugeWALSize(t *testing.T) {
	hdr := &proto.SnapshotHeader{FormatVersion: 1, Payload: &proto.SnapshotHeader_Full{Full: &proto.FullSnapshot{
		DbHeader:   &proto.Header{SizeBytes: 0, Crc32: 0},
		WalHeaders: []*proto.Header{{SizeBytes: 1<<63 + 5, Crc32: 0}},
	}}}
	buf := verifC10Stream(t, hdr, bytes.Repeat([]byte{0xCD}, 512))
	dst := filepath.Join(t.TempDir(), "out.db")
	_, err := Restore(buf, dst)
	if err == nil || !bytes.Contains([]byte(err.Error()), []byte("extracting WAL")) && !bytes.Contains([]byte(err.Error()), []byte("size")) {
		t.Errorf("failing input: WAL header says 2^63+5 bytes (CRC 0), stream carries 512: the WAL was accepted as read and verified (err=%v)", err)
	}
}
