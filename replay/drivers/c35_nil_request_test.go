package store

// Replay drivers for the #nil obligations of db.ExecuteWithContext / QueryWithContext /
// RequestWithContext and store.RORWCount (property C35). Witness: a request message without its
// Request payload — what a peer can send on the inter-node port as a well-formed protobuf
// (COMMAND_TYPE_EXECUTE / QUERY / REQUEST with an empty ExecuteRequest / QueryRequest /
// ExecuteQueryRequest). It must be rejected or treated as empty, not crash the node. For Execute
// the panic happens in the raft FSM goroutine of every node that applies the entry.

import (
	"context"
	"os"
	"os/exec"
	"strings"
	"testing"
	"time"

	"github.com/rqlite/rqlite/v10/command/proto"
)

func verifNilReqStore(t *testing.T) (*Store, func()) {
	s, ln := mustNewStore(t)
	if err := s.Open(); err != nil {
		t.Fatalf("open: %v", err)
	}
	if err := s.Bootstrap(NewServer(s.ID(), s.Addr(), true)); err != nil {
		t.Fatalf("bootstrap: %v", err)
	}
	if _, err := s.WaitForLeader(10 * time.Second); err != nil {
		t.Fatalf("leader: %v", err)
	}
	return s, func() { s.Close(true); ln.Close() }
}

func verifNoPanic(t *testing.T, what string, f func()) {
	defer func() {
		if r := recover(); r != nil {
			t.Errorf("failing input: %s: panic: %v", what, r)
		}
	}()
	f()
}

func Test_VerifReplay_C35NilRequestLocal(t *testing.T) {
	s, done := verifNilReqStore(t)
	defer done()
	verifNoPanic(t, "Store.Request(&ExecuteQueryRequest{}) (no Request payload)", func() {
		s.Request(context.Background(), &proto.ExecuteQueryRequest{})
	})
	verifNoPanic(t, "Store.Query(&QueryRequest{}) (no Request payload)", func() {
		s.Query(context.Background(), &proto.QueryRequest{})
	})
}

// The Execute case panics in the raft FSM goroutine, which no recover() in the test can catch:
// it is run in a child process and the crash is observed from outside.
func Test_VerifReplay_C35NilRequestExecute(t *testing.T) {
	if os.Getenv("VERIF_CHILD") == "1" {
		s, done := verifNilReqStore(t)
		defer done()
		s.Execute(context.Background(), &proto.ExecuteRequest{})
		time.Sleep(500 * time.Millisecond)
		return
	}
	cmd := exec.Command(os.Args[0], "-test.run", "^Test_VerifReplay_C35NilRequestExecute$", "-test.timeout", "60s")
	cmd.Env = append(os.Environ(), "VERIF_CHILD=1")
	out, err := cmd.CombinedOutput()
	if err != nil && strings.Contains(string(out), "panic:") {
		lines := strings.Split(string(out), "\n")
		var keep []string
		for _, l := range lines {
			if strings.HasPrefix(l, "panic:") || strings.Contains(l, "ExecuteWithContext") || strings.Contains(l, "fsmApply") {
				keep = append(keep, strings.TrimSpace(l))
			}
		}
		if len(keep) > 6 {
			keep = keep[:6]
		}
		t.Errorf("failing input: Store.Execute(&ExecuteRequest{}) (no Request payload) is replicated and crashes the process in the FSM apply goroutine: %s", strings.Join(keep, " | "))
	}
}
