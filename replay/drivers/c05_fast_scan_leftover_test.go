package db

import (
	"fmt"
	"os"
	"path/filepath"
	"strings"
	"testing"

	command "github.com/rqlite/rqlite/v10/command/proto"
	"github.com/rqlite/rqlite/v10/db/wal"
)

// Replay driver for property C05, obligation (*wal.Reader).ReadFrame#ensures[accepted-frame-is-in-the-valid-prefix].
// SQLite defines the valid prefix of a WAL by salts AND the running checksum. The scanner rqlite uses
// in production (fullScan == false) accepts a frame on its salts alone. A transaction that spilled to
// the WAL and was rolled back leaves frames with the right salts behind; once a later, shorter
// transaction has committed, the tail of those frames lies beyond the valid prefix. The fast scanner
// reads them as an unterminated transaction and refuses the whole WAL (ErrOpenTransaction): for this
// valid WAL no compacted WAL is produced at all, so every incremental snapshot fails until restart.
// The checksum-verifying scan of the same file succeeds.
func Test_VerifReplay_C05FastScanLeftover(t *testing.T) {
	path := filepath.Join(t.TempDir(), "db.sqlite")
	d, err := Open(path, false, true)
	if err != nil {
		t.Fatal(err)
	}
	defer d.Close()
	mustExec := func(s string) {
		r, err := d.ExecuteStringStmt(s)
		if err != nil || r[0].GetError() != "" {
			t.Fatalf("exec %q: %v %s", s[:40], err, r[0].GetError())
		}
	}
	mustExec("CREATE TABLE foo (id INTEGER NOT NULL PRIMARY KEY, v TEXT)")
	mustExec("INSERT INTO foo(v) VALUES('a')")
	// a big transaction that spills to the WAL and is then rolled back
	big := strings.Repeat("x", 1<<20)
	var stmts []string
	for i := 0; i < 12; i++ {
		stmts = append(stmts, fmt.Sprintf("INSERT INTO foo(v) VALUES('%s')", big))
	}
	stmts = append(stmts, "INSERT INTO nosuchtable(v) VALUES(1)")
	req := &command.Request{Transaction: true}
	for _, q := range stmts {
		req.Statements = append(req.Statements, &command.Statement{Sql: q})
	}
	r, err := d.Execute(req, false)
	t.Logf("big tx: err=%v last=%q", err, r[len(r)-1].GetError())
	st, _ := os.Stat(path + "-wal")
	t.Logf("WAL size after rollback: %d", st.Size())
	mustExec("INSERT INTO foo(v) VALUES('b')")
	st, _ = os.Stat(path + "-wal")
	t.Logf("WAL size after small commit: %d", st.Size())

	f, err := os.Open(path + "-wal")
	if err != nil {
		t.Fatal(err)
	}
	defer f.Close()
	_, err = wal.NewCompactingFrameScanner(f, 0, false)
	t.Logf("fast scan: %v", err)
	f.Seek(0, 0)
	_, err2 := wal.NewCompactingFrameScanner(f, 0, true)
	t.Logf("full scan: %v", err2)
	if err != nil {
		t.Fatalf("fast scan fails on a WAL whose valid prefix is fully committed: %v", err)
	}
}
