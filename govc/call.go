package main

// Calls: builtins, conversions, library models, contract calls, inlining, opaque calls.

import (
	"sort"
	"fmt"
	"go/ast"
	"go/token"
	"go/types"
	"strings"
)

type anchoredItem struct {
	gu       *GhostUpdate
	isUpdate bool
}

var typeTags = map[string]int{}

func typeTag(t types.Type) int {
	k := types.TypeString(types.Unalias(t), nil)
	if k == "[]uint8" {
		k = "[]byte" // one dynamic type, two spellings
	}
	if n, ok := typeTags[k]; ok {
		return n
	}
	n := len(typeTags) + 1
	typeTags[k] = n
	return n
}

func isInterface(t types.Type) bool {
	if t == nil {
		return false
	}
	_, ok := types.Unalias(t).Underlying().(*types.Interface)
	return ok
}

func isTypeParam(t types.Type) bool {
	_, ok := types.Unalias(t).(*types.TypeParam)
	return ok
}

// convertTo models the implicit/explicit conversion of a value of static type from to type to.
func (vc *VC) convertTo(st *State, v Term, from, to types.Type) Term {
	if from == nil || to == nil {
		return v
	}
	if tup, ok := from.(*types.Tuple); ok && tup.Len() == 1 {
		from = tup.At(0).Type()
	}
	if isInterface(to) && !isInterface(from) && !isTypeParam(to) {
		if b, ok := from.(*types.Basic); ok && b.Kind() == types.UntypedNil {
			return IntLit(0)
		}
		return vc.box(st, v, from)
	}
	ts := sortOfType(to)
	if v.Sort != ts {
		if v.Sort == SInt && v.S == "0" && ts == SSlc {
			return zeroOfSort(SSlc) // untyped nil as a slice
		}
		if isTypeParam(to) || isTypeParam(from) {
			if v.Sort == SInt && ts == SInt {
				return v
			}
		}
		// numeric conversions etc. are handled in evalConversion; anything else is abstracted
		return vc.fresh("conv", ts)
	}
	return v
}

func (vc *VC) box(st *State, v Term, from types.Type) Term {
	tag := typeTag(from)
	vc.ensureDyn()
	if v.Sort == SInt && !isBasicInt(from) {
		// reference-like: the reference itself, with its dynamic type recorded
		st.assume(Implies(Not(Eq(v, IntLit(0))), Eq(app(SInt, "dyntype", v), IntLit(int64(tag)))))
		return v
	}
	sk := sortKey(v.Sort)
	bname := fmt.Sprintf("box_%s_%d", sk, tag)
	uname := "unbox_" + sk
	if !vc.ufs[uname] {
		vc.ufs[uname] = true
		vc.emit(fmt.Sprintf("(declare-fun %s (Int) %s)", uname, v.Sort))
	}
	if !vc.ufs[bname] {
		vc.ufs[bname] = true
		vc.emit(fmt.Sprintf("(declare-fun %s (%s) Int)", bname, v.Sort))
	}
	// ground instances of the boxing axioms for this value (no quantifier: keeps failing
	// obligations decidable for the solvers)
	b := app(SInt, bname, v)
	st.assume(And(Eq(app(v.Sort, uname, b), v), Eq(app(SInt, "dyntype", b), IntLit(int64(tag))), app(SBool, "<", b, IntLit(0))))
	return b
}

func isBasicInt(t types.Type) bool {
	b, ok := types.Unalias(t).Underlying().(*types.Basic)
	return ok && b.Info()&types.IsInteger != 0
}

func (vc *VC) ensureDyn() {
	if !vc.ufs["dyntype"] {
		vc.ufs["dyntype"] = true
		vc.emit("(declare-fun dyntype (Int) Int)")
		vc.emit("(assert (= (dyntype 0) 0))")
	}
}

func (vc *VC) hasDynType(st *State, x Term, xt, t types.Type) Term {
	vc.ensureDyn()
	if isInterface(t) {
		return vc.fresh("implements", SBool)
	}
	return And(Not(Eq(x, IntLit(0))), Eq(app(SInt, "dyntype", x), IntLit(int64(typeTag(t)))))
}

func (vc *VC) unboxAs(st *State, x Term, xt, t types.Type) Term {
	srt := sortOfType(t)
	if isInterface(t) {
		return x
	}
	if srt == SInt && !isBasicInt(t) {
		return x
	}
	sk := sortKey(srt)
	uname := "unbox_" + sk
	if !vc.ufs[uname] {
		vc.ufs[uname] = true
		vc.emit(fmt.Sprintf("(declare-fun %s (Int) %s)", uname, srt))
	}
	r := app(srt, uname, x)
	if srt == SSlc && st != nil && !strings.Contains(r.S, "q$") {
		// typed memory: what is unboxed as a slice is a slice
		st.assume(vc.rangeFact(t, r))
	}
	return r
}

func (vc *VC) typeAssert(st *State, x Term, xt, t types.Type, at ast.Expr) Term {
	if vc.safe {
		vc.assert(st, vc.oblName("typeassert", exprText(vc, at)), "safety", at.Pos(), exprText(vc, at), vc.hasDynType(st, x, xt, t))
	}
	return vc.unboxAs(st, x, xt, t)
}

func (vc *VC) chanRecv(st *State, ch Term, elemT types.Type) Term {
	v := vc.unknown("recv", elemT)
	st.assume(vc.rangeFact(elemT, v))
	return v
}

// ---------------------------------------------------------------------------

func (vc *VC) evalCall(st *State, call *ast.CallExpr) []Term {
	info := vc.info()
	// conversion
	if tv, ok := info.Types[call.Fun]; ok && tv.IsType() {
		return []Term{vc.evalConversion(st, call, tv.Type)}
	}
	// builtin
	if id, ok := ast.Unparen(call.Fun).(*ast.Ident); ok {
		if b, ok := info.Uses[id].(*types.Builtin); ok {
			items := vc.anchored[call]
			var pre *State
			if len(items) > 0 {
				pre = st.clone()
				for _, it := range items {
					if it.gu.When == "before" {
						vc.applyAnchored(st, call, it, nil, pre)
					}
				}
			}
			rs := vc.evalBuiltin(st, call, b.Name())
			for _, it := range items {
				if it.gu.When == "after" {
					vc.applyAnchored(st, call, it, rs, pre)
				}
			}
			return rs
		}
	}
	// immediately-invoked literal
	if fl, ok := ast.Unparen(call.Fun).(*ast.FuncLit); ok {
		var args []Term
		for _, a := range call.Args {
			args = append(args, vc.evalCopy(st, a))
		}
		return vc.inlineBody(st, fl.Type, fl.Body, nil, Term{}, args, vc.cur().info, vc.cur().pkg, "closure", nil)
	}
	// receiver
	var recv *Term
	if sel, ok := ast.Unparen(call.Fun).(*ast.SelectorExpr); ok {
		if s, isSel := info.Selections[sel]; isSel {
			r := vc.eval(st, sel.X)
			// walk embedded path to the method's receiver
			if idx := s.Index(); len(idx) > 1 {
				r = vc.selectPath(st, r, s.Recv(), idx[:len(idx)-1])
			}
			recv = &r
		}
	}
	var args []Term
	fn := staticCallee(info, call)
	var sig *types.Signature
	if fn != nil {
		sig, _ = fn.Type().(*types.Signature)
	} else if t := vc.typeOf(call.Fun); t != nil {
		sig, _ = t.Underlying().(*types.Signature)
	}
	if len(call.Args) == 1 && sig != nil && sig.Params().Len() > 1 {
		// f(g()) multi-value passthrough
		args = vc.evalMulti(st, call.Args[0], sig.Params().Len())
	} else {
		vc.escapes = nil
		for i, a := range call.Args {
			v := vc.evalCopy(st, a)
			if sig != nil {
				var pt types.Type
				if sig.Variadic() && i >= sig.Params().Len()-1 {
					pt = sig.Params().At(sig.Params().Len() - 1).Type()
					if call.Ellipsis == token.NoPos {
						pt = pt.(*types.Slice).Elem()
					}
				} else if i < sig.Params().Len() {
					pt = sig.Params().At(i).Type()
				}
				v = vc.convertTo(st, v, vc.typeOf(a), pt)
			}
			args = append(args, v)
		}
	}
	// pack variadic
	if sig != nil && sig.Variadic() && call.Ellipsis == token.NoPos {
		nfix := sig.Params().Len() - 1
		if len(args) >= nfix {
			elemT := sig.Params().At(nfix).Type().(*types.Slice).Elem()
			es := sortOfType(elemT)
			extra := args[nfix:]
			var sl Term
			if len(extra) == 0 {
				sl = zeroOfSort(SSlc)
			} else {
				r := vc.freshRef(st, "variadic")
				arr := zeroOfSort(arrSort(SInt, es))
				for i, e := range extra {
					if e.Sort != es {
						e = vc.fresh("varg", es)
					}
					arr = Store(arr, IntLit(int64(i)), e)
				}
				eh := vc.elems(st, es)
				vc.heapSet(st, elemsName(es), vc.nameTerm("elems", Store(eh, r, arr)))
				sl = Term{fmt.Sprintf("(mkslc %s 0 %d)", r.S, len(extra)), SSlc}
			}
			args = append(append([]Term{}, args[:nfix]...), sl)
		}
	}
	escapes := vc.escapes
	vc.escapes = nil
	rs := vc.dispatchCall(st, call, recv, args)
	for _, e := range escapes {
		if e == "*" {
			vc.havocHeap(st, "escape")
		} else if srt, ok := vc.universe[e]; ok {
			st.heap[e] = vc.fresh(e, srt)
		}
	}
	return rs
}

func (vc *VC) resultTypes(call *ast.CallExpr) []types.Type {
	t := vc.typeOf(call)
	if t == nil {
		return nil
	}
	if tup, ok := t.(*types.Tuple); ok {
		var out []types.Type
		for i := 0; i < tup.Len(); i++ {
			out = append(out, tup.At(i).Type())
		}
		return out
	}
	return []types.Type{t}
}

func (vc *VC) freshResults(st *State, call *ast.CallExpr, hint string) []Term {
	var out []Term
	for _, t := range vc.resultTypes(call) {
		v := vc.fresh("r$"+hint, sortOfType(t))
		st.assume(vc.rangeFact(t, v))
		vc.assumeAllocated(st, v, t)
		out = append(out, v)
	}
	return out
}

// dispatchCall performs a call whose receiver and arguments are already evaluated.
func (vc *VC) dispatchCall(st *State, call *ast.CallExpr, recv *Term, args []Term) []Term {
	info := vc.info()
	// anchored assertions / ghost updates (before)
	items := vc.anchored[call]
	var pre *State
	if len(items) > 0 {
		pre = st.clone()
	}
	// evaluated argument values, for argN in anchored items whose argument expression is itself a call
	var argTerms []Term
	if len(items) > 0 && len(args) == len(call.Args) {
		argTerms = args
	}
	for _, it := range items {
		if it.gu.When == "before" {
			vc.argTerms = argTerms
			vc.applyAnchored(st, call, it, nil, pre)
			vc.argTerms = nil
		}
	}
	rs := vc.dispatchCall2(st, call, recv, args, info)
	for _, it := range items {
		if it.gu.When == "after" {
			vc.argTerms = argTerms
			vc.applyAnchored(st, call, it, rs, pre)
			vc.argTerms = nil
		}
	}
	return rs
}

func (vc *VC) dispatchCall2(st *State, call *ast.CallExpr, recv *Term, args []Term, info *types.Info) []Term {
	if len(vc.frames) == 1 {
		// the outermost call of the function under verification being dispatched (calls made while
		// a callee is inlined belong to it)
		savedCall := vc.curCall
		vc.curCall = call
		defer func() { vc.curCall = savedCall }()
	}
	fn := staticCallee(info, call)
	if fn == nil {
		// call through a function value
		if id, ok := ast.Unparen(call.Fun).(*ast.Ident); ok {
			if o := info.ObjectOf(id); o != nil {
				for i := len(vc.frames) - 1; i >= 0; i-- {
					if fl, ok := vc.frames[i].closures[o]; ok {
						if i == 0 {
							if cc := vc.closureContractFor(id.Name); cc != nil && (vc.fn.Lit == nil || vc.fn.Lit != fl) {
								return vc.closureContractCall(st, call, cc, fl, args)
							}
						}
						if vc.inlineDepth(fl) < 2 {
							return vc.inlineBody(st, fl.Type, fl.Body, nil, Term{}, args, vc.frames[i].info, vc.frames[i].pkg, "closure "+id.Name, fl)
						}
					}
				}
			}
		}
		// a call through a struct field declared "purefunc" in the type's contract (an injected
		// clock or random source): assumed not to touch the program's heap
		if sel, ok := ast.Unparen(call.Fun).(*ast.SelectorExpr); ok {
			if s, isSel := info.Selections[sel]; isSel && s.Kind() == types.FieldVal {
				if tc := vc.prog.DB.Types[typeName(s.Recv())]; tc != nil {
					for _, pf := range tc.PureFuncs {
						if pf == sel.Sel.Name {
							vc.notes["call through purefunc field "+typeName(s.Recv())+"."+pf+": assumed to touch no program state"]++
							return vc.freshResults(st, call, "pf")
						}
					}
				}
			}
		}
		vc.opaque["func value "+exprText(vc, call.Fun)]++
		vc.havocHeap(st, "funcvalue")
		return vc.freshResults(st, call, "fv")
	}
	key := funcKey(fn)
	pkgPath := ""
	if fn.Pkg() != nil {
		pkgPath = fn.Pkg().Path()
	}
	// monitors
	if pkgPath == "sync" && recv != nil {
		switch key {
		case "(*sync.Mutex).Lock", "(*sync.RWMutex).Lock", "(*sync.RWMutex).RLock":
			vc.monitorEnter(st, call, *recv)
			return nil
		case "(*sync.Mutex).Unlock", "(*sync.RWMutex).Unlock", "(*sync.RWMutex).RUnlock":
			vc.monitorExit(st, call, *recv, key != "(*sync.RWMutex).RUnlock")
			return nil
		case "(*sync.Cond).Wait":
			// Wait = Unlock; (others run); Lock — on the single monitor of the owning object
			if sel, ok := ast.Unparen(call.Fun).(*ast.SelectorExpr); ok {
				if cs, ok := ast.Unparen(sel.X).(*ast.SelectorExpr); ok {
					ot := vc.typeOf(cs.X)
					if tc := vc.prog.DB.Types[typeName(ot)]; tc != nil && len(tc.Monitors) == 1 {
						ms := &tc.Monitors[0]
						keepLock := vc.lastLock
						vc.monitorExitOn(st, call, cs.X, ot, tc, ms)
						vc.monitorEnterOn(st, cs.X, ot, tc, ms)
						vc.lastLock = keepLock
						return nil
					}
				}
			}
			vc.havocHeap(st, "cond.Wait")
			return nil
		}
	}
	if c := vc.prog.DB.Funcs[key]; c != nil {
		if c.Inline {
			if fi := vc.prog.Funcs[key]; fi != nil && vc.inlineDepthDecl(fi) < 2 {
				return vc.inlineFunc(st, fi, recv, args)
			}
		}
		return vc.contractCall(st, call, c, fn, recv, args)
	}
	if rs, ok := vc.libraryCall(st, call, key, fn, recv, args); ok {
		return rs
	}
	// auto-inline: proto getters
	if fi := vc.prog.Funcs[key]; fi != nil {
		if isRqlitePkg(pkgPath) && strings.HasSuffix(pkgPath, "/proto") && strings.HasPrefix(fn.Name(), "Get") {
			return vc.inlineFunc(st, fi, recv, args)
		}
	}
	if isRqlitePkg(pkgPath) && strings.HasSuffix(pkgPath, "/proto") && strings.HasPrefix(fn.Name(), "Get") && recv != nil {
		// getter without loaded body: nil-safe field read
		if rs, ok := vc.protoGetter(st, call, fn, *recv); ok {
			return rs
		}
	}
	// opaque
	if vc.prog.HeapPure[key] {
		vc.opaque[key+" (inferred heap-pure)"]++
		vc.havocGhosts(st, vc.prog.GhostMods[key])
		return vc.freshResults(st, call, fn.Name())
	}
	vc.opaque[key]++
	if isRqlitePkg(pkgPath) {
		vc.havocHeap(st, key)
		vc.havocGhosts(st, vc.prog.GhostMods[key])
	} else if vc.externalMayTouchRqlite(fn, call) {
		vc.havocHeap(st, key)
	} else if vc.externalValueOnly(fn, call) {
		// a package-level library function given only numbers and strings holds no reference
		// to any slice, map or box of the program: element arrays keep their contents, and the
		// only objects it can write are those of its own package
		vc.havocPackageFields(st, fn.Pkg().Path())
	} else {
		vc.havocExternalHeap(st)
	}
	return vc.freshResults(st, call, fn.Name())
}

func (vc *VC) externalValueOnly(fn *types.Func, call *ast.CallExpr) bool {
	if fn.Pkg() == nil || !noHeapPkgs[fn.Pkg().Path()] {
		return false
	}
	if rt := recvTypeOf(fn); rt != nil {
		// a method of a type of such a package (atomic.Int64.Add, sync.WaitGroup.Done, ...) given
		// only numbers and strings can write its receiver — an object of that package — and
		// nothing else of the program; interface receivers may be implemented by anything
		if isInterface(rt) {
			return false
		}
		if !namedInPkg(rt, fn.Pkg().Path()) {
			return false
		}
	}
	if call.Ellipsis.IsValid() {
		return false
	}
	for _, a := range call.Args {
		t := vc.typeOf(a)
		if t == nil {
			return false
		}
		if _, ok := types.Unalias(t).Underlying().(*types.Basic); !ok {
			return false
		}
	}
	return true
}

// havocLibraryFields: only fields / package variables of non-rqlite types change.
func (vc *VC) havocLibraryFields(st *State) {
	old := vc.snapshotFields(st)
	defer vc.keepPrivateStructs(st, old)
	for _, n := range vc.sortedUniverse() {
		if (strings.HasPrefix(n, "F$") || strings.HasPrefix(n, "G$")) && !isRqlitePkg(heapPkg[n]) && !heapStructVal[n] {
			st.heap[n] = vc.fresh(n, vc.universe[n])
		}
	}
}

var callbackPkgs = map[string]bool{
	"github.com/hashicorp/raft": true, "database/sql": true, "net/http": true,
	"github.com/mattn/go-sqlite3": true, "go.etcd.io/bbolt": true, "github.com/rqlite/go-sqlite3": true,
}

func (vc *VC) externalMayTouchRqlite(fn *types.Func, call *ast.CallExpr) bool {
	if fn.Pkg() != nil && callbackPkgs[fn.Pkg().Path()] {
		return true
	}
	touches := func(t types.Type) bool {
		if t == nil {
			return false
		}
		t = types.Unalias(t)
		switch u := t.Underlying().(type) {
		case *types.Interface, *types.Signature:
			_ = u
			if isErrorType(t) {
				return false
			}
			return true
		case *types.Pointer:
			if n, ok := types.Unalias(u.Elem()).(*types.Named); ok && n.Obj().Pkg() != nil && isRqlitePkg(n.Obj().Pkg().Path()) {
				return true
			}
		case *types.Slice:
			if n, ok := types.Unalias(u.Elem()).(*types.Pointer); ok {
				if nn, ok := types.Unalias(n.Elem()).(*types.Named); ok && nn.Obj().Pkg() != nil && isRqlitePkg(nn.Obj().Pkg().Path()) {
					return true
				}
			}
		}
		return false
	}
	for _, a := range call.Args {
		if touches(vc.typeOf(a)) {
			return true
		}
	}
	if sel, ok := ast.Unparen(call.Fun).(*ast.SelectorExpr); ok {
		if _, isSel := vc.info().Selections[sel]; isSel {
			rt := vc.typeOf(sel.X)
			if isInterface(rt) && !isErrorType(rt) {
				return true
			}
		}
	}
	return false
}

func (vc *VC) inlineDepth(fl *ast.FuncLit) int {
	n := 0
	for _, f := range vc.frames {
		if f.body == fl.Body {
			n++
		}
	}
	return n
}

func (vc *VC) inlineDepthDecl(fi *FuncInfo) int {
	n := 0
	for _, f := range vc.frames {
		if f.body == fi.Decl.Body {
			n++
		}
	}
	return n
}

func (vc *VC) inlineFunc(st *State, fi *FuncInfo, recv *Term, args []Term) []Term {
	var recvField *ast.Field
	if fi.Decl.Recv != nil && len(fi.Decl.Recv.List) > 0 {
		recvField = fi.Decl.Recv.List[0]
	}
	var r Term
	if recv != nil {
		r = *recv
	}
	return vc.inlineBody(st, fi.Decl.Type, fi.Decl.Body, recvField, r, args, fi.Pkg.TypesInfo, fi.Pkg.Types, fi.Key, nil)
}

// inlineBody executes a function body in a new call frame and merges its exits into st.
func (vc *VC) inlineBody(st *State, ft *ast.FuncType, body *ast.BlockStmt, recvField *ast.Field, recv Term, args []Term, info *types.Info, pkg *types.Package, name string, lit *ast.FuncLit) []Term {
	if len(vc.frames) > 12 {
		vc.fail("inline depth exceeded at %s", name)
		return nil
	}
	fr := &callFrame{info: info, pkg: pkg, fnName: name, ftype: ft}
	// closures keep the enclosing frame's loop numbering (loops inside literals are numbered
	// as part of the function under verification)
	vc.frames = append(vc.frames, fr)
	vc.prepareFrame(fr, body, false)
	if recvField != nil && len(recvField.Names) > 0 {
		if o := info.Defs[recvField.Names[0]]; o != nil {
			vc.declareLocal(st, o, recv)
		}
	}
	i := 0
	for _, f := range ft.Params.List {
		for _, nm := range f.Names {
			if o := info.Defs[nm]; o != nil && i < len(args) {
				vc.declareLocal(st, o, args[i])
			}
			i++
		}
		if len(f.Names) == 0 {
			i++
		}
	}
	vc.bindResults(st, fr, ft, info)
	end := vc.execBlock(st.clone(), body.List)
	if end != nil {
		vc.finishFrame(end)
	}
	m := vc.merge(fr.exits)
	vc.frames = vc.frames[:len(vc.frames)-1]
	if m == nil {
		st.pc = TFalse
		var out []Term
		for _, o := range fr.results {
			out = append(out, zeroOfSort(sortOfType(o.Type())))
		}
		return out
	}
	var out []Term
	for _, o := range fr.results {
		if vc.isBoxedIn(fr, o) {
			srt := sortOfType(o.Type())
			out = append(out, Select(vc.heapGet(m, "Box$"+sortKey(srt), arrSort(SInt, srt)), m.vars[o]))
		} else {
			out = append(out, m.vars[o])
		}
	}
	*st = *m
	return out
}

func (vc *VC) isBoxedIn(fr *callFrame, o types.Object) bool { return fr.boxed[o] }

func (vc *VC) bindResults(st *State, fr *callFrame, ft *ast.FuncType, info *types.Info) {
	if ft.Results == nil {
		return
	}
	for _, f := range ft.Results.List {
		t := info.Types[f.Type].Type
		if len(f.Names) == 0 {
			o := types.NewVar(token.NoPos, nil, fmt.Sprintf("result%d", len(fr.results)), t)
			st.vars[o] = zeroOfSort(sortOfType(t))
			fr.results = append(fr.results, o)
			continue
		}
		for _, nm := range f.Names {
			o := info.Defs[nm]
			if o == nil || nm.Name == "_" {
				o = types.NewVar(token.NoPos, nil, fmt.Sprintf("result%d", len(fr.results)), t)
				st.vars[o] = zeroOfSort(sortOfType(t))
			} else {
				vc.declareLocal(st, o, vc.zeroValue(st, t))
			}
			fr.results = append(fr.results, o)
		}
	}
}

// ---------------------------------------------------------------------------
// contract calls

func (vc *VC) calleeNames(c *FuncContract, fn *types.Func, recv *Term, args []Term) map[string]Val {
	names := map[string]Val{}
	sig := fn.Type().(*types.Signature)
	if recv != nil && sig.Recv() != nil {
		rn := c.RecvName
		if rn == "" {
			rn = sig.Recv().Name()
		}
		if fi := vc.prog.Funcs[c.Key]; fi != nil && fi.Decl.Recv != nil && len(fi.Decl.Recv.List[0].Names) > 0 && c.RecvName == "" {
			rn = fi.Decl.Recv.List[0].Names[0].Name
		}
		if rn == "" || rn == "_" {
			rn = "self"
		}
		names[rn] = Val{*recv, sig.Recv().Type()}
		names["self"] = Val{*recv, sig.Recv().Type()}
	}
	for i := 0; i < sig.Params().Len() && i < len(args); i++ {
		p := sig.Params().At(i)
		n := p.Name()
		if i < len(c.ParamNames) {
			n = c.ParamNames[i]
		}
		if n == "" || n == "_" {
			n = fmt.Sprintf("a%d", i)
		}
		names[n] = Val{args[i], p.Type()}
		names[fmt.Sprintf("a%d", i)] = Val{args[i], p.Type()}
	}
	return names
}

func bindResultNames(names map[string]Val, sig *types.Signature, rs []Term) {
	for i := 0; i < sig.Results().Len() && i < len(rs); i++ {
		r := sig.Results().At(i)
		if r.Name() != "" && r.Name() != "_" {
			names[r.Name()] = Val{rs[i], r.Type()}
		}
		names[fmt.Sprintf("result%d", i)] = Val{rs[i], r.Type()}
		if i == 0 {
			names["result"] = Val{rs[i], r.Type()}
		}
	}
}

func (vc *VC) contractCall(st *State, call *ast.CallExpr, c *FuncContract, fn *types.Func, recv *Term, args []Term) []Term {
	vc.assumedC[c.Key]++
	names := vc.calleeNames(c, fn, recv, args)
	sig := fn.Type().(*types.Signature)
	env := &SpecEnv{vc: vc, st: st, old: st, names: names, pkg: fn.Pkg()}
	for _, r := range c.Requires {
		g := vc.specEvalBool(env, r.Expr)
		vc.callSeq[c.Key]++
		name := fmt.Sprintf("%s#requires@%s[%s]", vc.fn.Key, shortKey(c.Key), r.Label)
		vc.oblCount[name]++
		if n := vc.oblCount[name]; n > 1 {
			name += fmt.Sprintf("#%d", n)
		}
		vc.assert(st, name, "call-requires", call.Pos(), r.Src, g)
		st.assume(g)
	}
	pre := st.clone()
	// frame
	hasBody := vc.prog.Funcs[c.Key] != nil
	pkgPath := ""
	if fn.Pkg() != nil {
		pkgPath = fn.Pkg().Path()
	}
	if c.CallsArg >= 0 && c.CallsArg < len(call.Args) {
		// the callee invokes its function-literal argument exactly once (e.g. bbolt Update/View)
		if fl, ok := ast.Unparen(call.Args[c.CallsArg]).(*ast.FuncLit); ok {
			var cargs []Term
			if fl.Type.Params != nil {
				for _, f := range fl.Type.Params.List {
					for range f.Names {
						cargs = append(cargs, vc.unknown("cbarg", vc.info().Types[f.Type].Type))
					}
				}
			}
			if c.OnceGuard != "" {
				// sync.Once-style: the literal runs iff the guard ghost is false for the receiver;
				// afterwards the guard is true
				g := vc.heapGet(st, "ghost$"+c.OnceGuard, arrSort(SInt, SBool))
				var key Term
				if recv != nil {
					key = *recv
				} else {
					key = IntLit(0)
				}
				done := Select(g, key)
				s1 := st.clone()
				s1.assume(Not(done))
				vc.inlineBody(s1, fl.Type, fl.Body, nil, Term{}, cargs, vc.cur().info, vc.cur().pkg, "once-callback of "+c.Key, fl)
				s2 := st.clone()
				s2.assume(done)
				if m := vc.merge([]*State{s1, s2}); m != nil {
					*st = *m
				} else {
					st.pc = TFalse
				}
				g2 := vc.heapGet(st, "ghost$"+c.OnceGuard, arrSort(SInt, SBool))
				vc.heapSet(st, "ghost$"+c.OnceGuard, vc.nameTerm("once", Store(g2, key, TTrue)))
			} else {
				crs := vc.inlineBody(st, fl.Type, fl.Body, nil, Term{}, cargs, vc.cur().info, vc.cur().pkg, "callback of "+c.Key, fl)
				for i, r := range crs {
					names[fmt.Sprintf("cbresult%d", i)] = Val{r, nil}
				}
			}
			pre = st.clone()
		}
	}
	switch {
	case c.WritesArg >= 0:
		// only the object passed as argument N (and slice/box contents) may change
		if c.WritesArg < len(call.Args) {
			t := vc.typeOf(call.Args[c.WritesArg])
			vc.havocObjectType(st, t, 0)
		}
		for _, n := range vc.sortedUniverse() {
			if strings.HasPrefix(n, "Elems$") || strings.HasPrefix(n, "Box$") {
				st.heap[n] = vc.fresh(n, vc.universe[n])
			}
		}
	case c.Pure || c.NoHeap:
	case c.HasAssigns:
		for _, a := range c.Assigns {
			if a == "*" || a == "**" {
				vc.havocHeap(st, c.Key)
				continue
			}
			if _, ok := vc.prog.DB.Ghosts[a]; ok {
				continue
			}
			// heap array pattern: Type.field
			vc.havocPattern(st, a)
		}
		// the callee's frame obligation does not cover fields of library objects (verify.go), so
		// the caller does not keep them across the call either. (The assigns clause of a trusted
		// library specification is taken as complete: it is not checked against a body anyway.)
		if hasBody || isRqlitePkg(pkgPath) {
			vc.havocLibraryFields(st)
		}
	case hasBody || isRqlitePkg(pkgPath):
		vc.havocHeap(st, c.Key)
	default:
		if vc.externalMayTouchRqlite(fn, call) {
			vc.havocHeap(st, c.Key)
		} else if vc.externalValueOnly(fn, call) {
			vc.havocPackageFields(st, fn.Pkg().Path())
		} else {
			vc.havocExternalHeap(st)
		}
	}
	vc.havocGhosts(st, vc.prog.contractGhostAssigns(c))
	var rs []Term
	for i := 0; i < sig.Results().Len(); i++ {
		t := sig.Results().At(i).Type()
		v := vc.fresh("r$"+fn.Name(), sortOfType(t))
		st.assume(vc.rangeFact(t, v))
		vc.assumeAllocated(st, v, t)
		rs = append(rs, v)
	}
	bindResultNames(names, sig, rs)
	env2 := &SpecEnv{vc: vc, st: st, old: pre, names: names, pkg: fn.Pkg()}
	for _, e := range c.Ensures {
		// postconditions over the callee's own ghost locals (or atlock states) mean nothing to a caller
		skip := false
		for _, g := range c.GhostVars {
			if specMentions(e.Expr, g.Name) {
				skip = true
			}
		}
		if skip || specMentions(e.Expr, "atlock") {
			continue
		}
		st.assume(vc.nameTerm("ens", vc.specEvalBool(env2, e.Expr)))
	}
	return rs
}

func specMentions(e SExpr, name string) bool {
	switch e := e.(type) {
	case *SIdent:
		return e.Name == name
	case *SBin:
		return specMentions(e.L, name) || specMentions(e.R, name)
	case *SUn:
		return specMentions(e.X, name)
	case *SSel:
		return specMentions(e.X, name)
	case *SIndex:
		return specMentions(e.X, name) || specMentions(e.I, name)
	case *SSlice:
		return specMentions(e.X, name) || (e.Lo != nil && specMentions(e.Lo, name)) || (e.Hi != nil && specMentions(e.Hi, name))
	case *SCall:
		if specMentions(e.Fun, name) {
			return true
		}
		for _, a := range e.Args {
			if specMentions(a, name) {
				return true
			}
		}
	case *SQuant:
		return specMentions(e.Body, name)
	}
	return false
}

// objectTypePatterns records the field arrays of the struct type t points to as loop effects.
func (vc *VC) objectTypePatterns(t types.Type, ef *effects, depth int) {
	if t == nil || depth > 3 {
		return
	}
	t = types.Unalias(t)
	if p, ok := t.Underlying().(*types.Pointer); ok {
		t = p.Elem()
	}
	s := structOf(t)
	if s == nil {
		return
	}
	for i := 0; i < s.NumFields(); i++ {
		f := s.Field(i)
		ef.untargeted(vc.fieldName(t, f))
		ft := types.Unalias(f.Type())
		if isStructVal(ft) {
			vc.objectTypePatterns(ft, ef, depth+1)
		} else if p, ok := ft.Underlying().(*types.Pointer); ok && structOf(p.Elem()) != nil {
			vc.objectTypePatterns(p.Elem(), ef, depth+1)
		} else if sl, ok := ft.Underlying().(*types.Slice); ok {
			vc.objectTypePatterns(sl.Elem(), ef, depth+1)
		}
	}
}

// havocObjectType havocs every field array of the struct type t points to (and nested rqlite structs).
func (vc *VC) havocObjectType(st *State, t types.Type, depth int) {
	if t == nil || depth > 3 {
		return
	}
	t = types.Unalias(t)
	if p, ok := t.Underlying().(*types.Pointer); ok {
		t = p.Elem()
	}
	s := structOf(t)
	if s == nil {
		// pointer to a scalar: box contents (havocked by the caller)
		return
	}
	for i := 0; i < s.NumFields(); i++ {
		f := s.Field(i)
		n := vc.fieldName(t, f)
		if srt, ok := vc.universe[n]; ok {
			st.heap[n] = vc.fresh(n, srt)
		}
		ft := types.Unalias(f.Type())
		if isStructVal(ft) {
			vc.havocObjectType(st, ft, depth+1)
		} else if p, ok := ft.Underlying().(*types.Pointer); ok && structOf(p.Elem()) != nil {
			vc.havocObjectType(st, p.Elem(), depth+1)
		} else if sl, ok := ft.Underlying().(*types.Slice); ok {
			vc.havocObjectType(st, sl.Elem(), depth+1)
		}
	}
}

func shortKey(k string) string {
	return strings.ReplaceAll(k, modPath+"/", "")
}

// libFieldsPattern: effect of a call under an assigns clause on the fields of library objects.
const libFieldsPattern = "<libfields>"

func (vc *VC) havocPattern(st *State, pat string) {
	if pat == libFieldsPattern {
		vc.havocLibraryFields(st)
		return
	}
	// pat is a field name ("delayFactor"), "Type.field", or a heap array name prefix ("Elems")
	field := pat
	typ := ""
	if i := strings.LastIndex(pat, "."); i >= 0 {
		typ, field = pat[:i], pat[i+1:]
	}
	for _, n := range vc.sortedUniverse() {
		if isGhostName(n) {
			continue
		}
		if strings.HasSuffix(pat, ".") || strings.HasSuffix(pat, "$") {
			// package pattern "pkg." / type pattern "pkg.Type$": every field of every type of that
			// package / every field of that type
			if strings.HasPrefix(n, "F$"+pat) {
				st.heap[n] = vc.fresh(n, vc.universe[n])
			}
			continue
		}
		if (strings.HasSuffix(n, "$"+field) && (typ == "" || strings.Contains(n, typ+"$"))) || strings.HasPrefix(n, pat+"$") || n == pat {
			st.heap[n] = vc.fresh(n, vc.universe[n])
		}
	}
}

// ---------------------------------------------------------------------------
// anchored ghost updates and assertions

func (vc *VC) bindAnchors(fi *FuncInfo, c *FuncContract) {
	vc.anchored = map[*ast.CallExpr][]anchoredItem{}
	if c == nil {
		return
	}
	type occ struct{ n int }
	all := append([]*GhostUpdate{}, c.Updates...)
	nUpd := len(all)
	all = append(all, c.Asserts...)
	counts := make([]int, len(all))
	matched := make([]bool, len(all))
	vc.anchoredNodes = map[ast.Node][]anchoredItem{}
	ast.Inspect(fi.Decl.Body, func(n ast.Node) bool {
		var txt string
		call, isCall := n.(*ast.CallExpr)
		switch x := n.(type) {
		case *ast.CallExpr:
			txt = nodeText(vc.prog.Fset, x.Fun)
		case *ast.UnaryExpr:
			if x.Op != token.ARROW {
				return true
			}
			txt = "recv:" + nodeText(vc.prog.Fset, x.X)
		case *ast.RangeStmt:
			// "iter:<v>" anchors the start of every iteration of "for ..., v := range ..." (the value
			// variable, or the key variable when there is no value variable)
			if id, ok := x.Value.(*ast.Ident); ok && id.Name != "_" {
				txt = "iter:" + id.Name
			} else if id, ok := x.Key.(*ast.Ident); ok && id.Name != "_" {
				txt = "iter:" + id.Name
			} else {
				return true
			}
		case *ast.ReturnStmt:
			// "return#k" anchors the k-th return statement (source order, closures included)
			txt = "return"
		case *ast.SendStmt:
			txt = "send:" + nodeText(vc.prog.Fset, x.Chan)
		case *ast.IncDecStmt:
			// "inc:x" / "dec:x" anchors x++ / x-- on a plain variable
			// (or on a field written as in the source: "inc:r.frameN")
			var nm string
			switch t := x.X.(type) {
			case *ast.Ident:
				nm = t.Name
			case *ast.SelectorExpr:
				nm = nodeText(vc.prog.Fset, t)
			default:
				return true
			}
			if x.Tok == token.INC {
				txt = "inc:" + nm
			} else {
				txt = "dec:" + nm
			}
		case *ast.AssignStmt:
			// "def:x" anchors the statement that defines local x (x := ...)
			if x.Tok == token.ASSIGN && len(x.Lhs) == 1 {
				// "set:<lhs>" anchors a plain assignment to the variable or field written <lhs>
				txt = "set:" + nodeText(vc.prog.Fset, x.Lhs[0])
				break
			}
			if x.Tok != token.DEFINE {
				return true
			}
			id, ok := x.Lhs[0].(*ast.Ident)
			if !ok {
				return true
			}
			txt = "def:" + id.Name
		default:
			return true
		}
		for i, gu := range all {
			if gu.Anchor == "exit" {
				continue
			}
			if anchorMatch(gu.Anchor, txt) {
				counts[i]++
				if gu.Occ == 0 || gu.Occ == counts[i] {
					matched[i] = true
					if isCall {
						vc.anchored[call] = append(vc.anchored[call], anchoredItem{gu, i < nUpd})
					} else {
						vc.anchoredNodes[n] = append(vc.anchoredNodes[n], anchoredItem{gu, i < nUpd})
					}
				}
			}
		}
		return true
	})
	for i, gu := range all {
		if gu.Anchor != "exit" && !matched[i] && !strings.HasSuffix(gu.Anchor, "*") && !gu.Optional {
			vc.fail("anchor @%s of %s matches no call in %s", gu.Anchor, gu.Var, fi.Key)
		}
	}
	for _, items := range vc.anchored {
		sort.SliceStable(items, func(a, b int) bool { return items[a].gu.Seq < items[b].gu.Seq })
	}
	for _, items := range vc.anchoredNodes {
		sort.SliceStable(items, func(a, b int) bool { return items[a].gu.Seq < items[b].gu.Seq })
	}
}

func anchorMatch(anchor, txt string) bool {
	if strings.HasSuffix(anchor, "*") {
		return strings.HasPrefix(txt, anchor[:len(anchor)-1])
	}
	return anchor == txt
}

func (vc *VC) applyAnchored(st *State, call *ast.CallExpr, it anchoredItem, results []Term, pre *State) {
	vc.resultGoTypes = vc.resultTypes(call)
	vc.applyAnchoredAt(st, call.Pos(), call.Args, it, results, pre)
	vc.resultGoTypes = nil
}

// nodeAnchors runs the anchored items of a receive expression or send statement.
func (vc *VC) nodeAnchors(st *State, n ast.Node, when string, results []Term, pre *State) {
	vc.resultGoTypes = nil
	switch x := n.(type) {
	case *ast.SendStmt:
		vc.resultGoTypes = []types.Type{vc.typeOf(x.Value)}
	case *ast.UnaryExpr:
		vc.resultGoTypes = []types.Type{vc.typeOf(x)}
	case *ast.ReturnStmt:
		vc.resultGoTypes = vc.resultGoTypesOverride
	}
	defer func() { vc.resultGoTypes = nil }()
	for _, it := range vc.anchoredNodes[n] {
		if it.gu.When == when {
			vc.applyAnchoredAt(st, n.Pos(), nil, it, results, pre)
		}
	}
}

func (vc *VC) applyAnchoredAt(st *State, pos token.Pos, callArgs []ast.Expr, it anchoredItem, results []Term, pre *State) {
	names := map[string]Val{}
	for i, r := range results {
		var gt types.Type
		if vc.resultGoTypes != nil && i < len(vc.resultGoTypes) {
			gt = vc.resultGoTypes[i]
		}
		names[fmt.Sprintf("result%d", i)] = Val{r, gt}
		if i == 0 {
			names["result"] = Val{r, gt}
		}
	}
	// call arguments are available as arg0.. (re-evaluated syntactically: pure arguments only)
	env := &SpecEnv{vc: vc, st: st, old: vc.entryState(), pre: pre, names: names, pkg: vc.fn.Pkg.Types, scopePos: pos, useLocals: true, callArgs: callArgs}
	if it.gu.Define {
		// ghost define X :: P  —  X becomes an arbitrary value satisfying P (P may mention pre(X))
		var srt string
		if g, ok := vc.prog.DB.Ghosts[it.gu.Var]; ok {
			srt = specSort(g.Type)
		} else if vc.contract != nil {
			for _, g := range vc.contract.GhostVars {
				if g.Name == it.gu.Var {
					srt = specSort(g.Type)
				}
			}
		}
		if srt == "" {
			vc.fail("ghost define: unknown ghost %s", it.gu.Var)
			return
		}
		vc.setGhost(st, it.gu.Var, vc.fresh("gdef$"+it.gu.Var, srt))
		st.assume(vc.nameTerm("gdefine", vc.specEvalBool(env, it.gu.Expr)))
		return
	}
	if it.gu.Assume {
		st.assume(vc.nameTerm("siteassume", vc.specEvalBool(env, it.gu.Expr)))
		vc.notes[fmt.Sprintf("call-site assumption [%s] at %s: %s", it.gu.Var, it.gu.Anchor, it.gu.Src)]++
		return
	}
	if it.isUpdate {
		v := vc.specEval(env, it.gu.Expr)
		vc.setGhost(st, it.gu.Var, v.T)
		return
	}
	g := vc.specEvalBool(env, it.gu.Expr)
	name := fmt.Sprintf("%s#assert@%s[%s]", vc.fn.Key, it.gu.Anchor, it.gu.Var)
	vc.oblCount[name]++
	if n := vc.oblCount[name]; n > 1 {
		name += fmt.Sprintf("#%d", n)
	}
	// vacuity guard: the anchored program point must be reachable under the assumptions made so far
	vc.cover(st, name+"#cover[reach]", pos)
	vc.assert(st, name, "assert", pos, it.gu.Src, g)
	st.assume(g)
}

func (vc *VC) setGhost(st *State, name string, v Term) {
	if _, ok := vc.prog.DB.Ghosts[name]; ok {
		vc.heapSet(st, "ghost$"+name, vc.nameTerm(name, v))
		return
	}
	vc.heapSet(st, "gl$"+name, vc.nameTerm(name, v))
}

// ---------------------------------------------------------------------------
// monitors

func (vc *VC) monitorFor(call *ast.CallExpr) (owner ast.Expr, ownerT types.Type, tc *TypeContract, ms *MonitorSpec) {
	sel, ok := ast.Unparen(call.Fun).(*ast.SelectorExpr)
	if !ok {
		return
	}
	mu, ok := ast.Unparen(sel.X).(*ast.SelectorExpr)
	if !ok {
		return
	}
	ot := vc.typeOf(mu.X)
	if ot == nil {
		return
	}
	tn := typeName(ot)
	tc = vc.prog.DB.Types[tn]
	if tc == nil {
		return nil, nil, nil, nil
	}
	for i := range tc.Monitors {
		if tc.Monitors[i].Mutex == mu.Sel.Name {
			return mu.X, ot, tc, &tc.Monitors[i]
		}
	}
	return nil, nil, nil, nil
}

func (vc *VC) monitorEnter(st *State, call *ast.CallExpr, mu Term) {
	owner, ot, tc, ms := vc.monitorFor(call)
	if ms == nil {
		return
	}
	vc.monitorEnterOn(st, owner, ot, tc, ms)
}

func (vc *VC) monitorEnterOn(st *State, owner ast.Expr, ot types.Type, tc *TypeContract, ms *MonitorSpec) {
	base := vc.eval(st, owner)
	s := structOf(ot)
	// other threads may have changed the protected fields: havoc them at this object
	for _, fname := range ms.Protects {
		for i := 0; i < s.NumFields(); i++ {
			f := s.Field(i)
			if f.Name() == fname {
				nv := vc.fresh(fname, sortOfType(f.Type()))
				st.assume(vc.rangeFact(f.Type(), nv))
				// values published by other threads are not objects this call allocates itself
				if nv.Sort == SSlc {
					st.assume(app(SBool, "<=", sbase(nv), Term{"alloc$base", SInt}))
				} else if heapRefLike[vc.fieldName(ot, f)] {
					st.assume(app(SBool, "<=", nv, Term{"alloc$base", SInt}))
				}
				vc.writeField(st, base, ot, f, nv)
			}
		}
	}
	for _, inv := range tc.Invariants {
		env := &SpecEnv{vc: vc, st: st, old: st, names: map[string]Val{"self": {base, ot}}, pkg: vc.cur().pkg}
		st.assume(vc.specEvalBool(env, inv.Expr))
	}
	st.heap["gl$$held$"+ms.Mutex] = TTrue
	vc.universe["gl$$held$"+ms.Mutex] = SBool
	vc.lastLock = st.clone()
}

func (vc *VC) monitorExit(st *State, call *ast.CallExpr, mu Term, write bool) {
	owner, ot, tc, ms := vc.monitorFor(call)
	if ms == nil {
		return
	}
	vc.monitorExitOn(st, call, owner, ot, tc, ms)
}

func (vc *VC) monitorExitOn(st *State, call *ast.CallExpr, owner ast.Expr, ot types.Type, tc *TypeContract, ms *MonitorSpec) {
	base := vc.eval(st, owner)
	for _, inv := range tc.Invariants {
		env := &SpecEnv{vc: vc, st: st, old: st, names: map[string]Val{"self": {base, ot}}, pkg: vc.cur().pkg}
		g := vc.specEvalBool(env, inv.Expr)
		name := fmt.Sprintf("%s#inv@Unlock[%s]", vc.fn.Key, inv.Label)
		vc.oblCount[name]++
		if n := vc.oblCount[name]; n > 1 {
			name += fmt.Sprintf("#%d", n)
		}
		vc.assert(st, name, "monitor-inv", call.Pos(), inv.Src, g)
	}
	st.heap["gl$$held$"+ms.Mutex] = TFalse
	vc.universe["gl$$held$"+ms.Mutex] = SBool
}

func (vc *VC) monitorWriteCheck(st *State, base Term, rt types.Type, f *types.Var, at ast.Expr) {
	tc := vc.prog.DB.Types[typeName(rt)]
	if tc == nil {
		return
	}
	for _, ms := range tc.Monitors {
		for _, p := range ms.Protects {
			if p == f.Name() {
				held, ok := st.heap["gl$$held$"+ms.Mutex]
				if !ok {
					held = TFalse
				}
				// writes to a freshly allocated object (constructor) need no lock
				fresh := app(SBool, ">", base, Term{"alloc$base", SInt})
				name := fmt.Sprintf("%s#lock[%s]", vc.fn.Key, f.Name())
				vc.oblCount[name]++
				if n := vc.oblCount[name]; n > 1 {
					name += fmt.Sprintf("#%d", n)
				}
				vc.assert(st, name, "lock", at.Pos(), "write of "+f.Name()+" requires "+ms.Mutex+" held", Or(held, fresh))
			}
		}
	}
}

// ---------------------------------------------------------------------------
// effects of calls (for loop havoc)

func (vc *VC) callEffects(call *ast.CallExpr, ef *effects) {
	info := vc.info()
	for _, it := range vc.anchored[call] {
		if it.isUpdate {
			if _, ok := vc.prog.DB.Ghosts[it.gu.Var]; ok {
				ef.ghosts[it.gu.Var] = true
			}
		}
	}
	if tv, ok := info.Types[call.Fun]; ok && tv.IsType() {
		return
	}
	if id, ok := ast.Unparen(call.Fun).(*ast.Ident); ok {
		if b, ok := info.Uses[id].(*types.Builtin); ok {
			switch b.Name() {
			case "close":
				ef.ghosts["chanClosed"] = true
			case "make", "new":
				vc.allocEffects(info.Types[call].Type, ef)
			case "append", "copy", "delete", "clear":
				ef.allocs = true
				if len(call.Args) > 0 {
					if t := info.Types[call.Args[0]].Type; t != nil {
						switch u := types.Unalias(t).Underlying().(type) {
						case *types.Slice:
							if b.Name() == "append" {
								// modelled as a fresh backing array: existing arrays are untouched
								if ef.allocd == nil {
									ef.allocd = map[string]bool{}
								}
								ef.allocd[elemsName(sortOfType(u.Elem()))] = true
							} else {
								ef.untargeted(elemsName(sortOfType(u.Elem())))
							}
						case *types.Map:
							ks, vs := sortOfType(u.Key()), sortOfType(u.Elem())
							ef.untargeted(mapDomName(ks, vs))
							ef.untargeted(mapValName(ks, vs))
						default:
							ef.heapAll = true
						}
					}
				}
			}
			return
		}
		if o := info.ObjectOf(id); o != nil {
			for i := len(vc.frames) - 1; i >= 0; i-- {
				if fl, ok := vc.frames[i].closures[o]; ok {
					sub := vc.effectsOf(fl.Body)
					for k := range sub.locals {
						ef.locals[k] = true
					}
					for k := range sub.heap {
						ef.untargeted(k)
					}
					for k := range sub.allocd {
						if ef.allocd == nil {
							ef.allocd = map[string]bool{}
						}
						ef.allocd[k] = true
					}
					ef.waits = ef.waits || sub.waits
					ef.heapExt = ef.heapExt || sub.heapExt
					ef.patterns = append(ef.patterns, sub.patterns...)
					for k := range sub.ghosts {
						ef.ghosts[k] = true
					}
					ef.heapAll = ef.heapAll || sub.heapAll
					ef.allocs = ef.allocs || sub.allocs
					return
				}
			}
		}
	}
	ef.calls = true // a non-builtin call: values it returns may be objects allocated by the callee
	fn := staticCallee(info, call)
	if fn == nil {
		ef.heapAll = true
		return
	}
	key := funcKey(fn)
	if key == "(*sync.Cond).Wait" || key == "(*sync.Mutex).Lock" || key == "(*sync.RWMutex).Lock" || key == "(*sync.RWMutex).RLock" {
		// (re)acquiring a monitor: the protected fields may have been changed by other threads
		if sel, ok := ast.Unparen(call.Fun).(*ast.SelectorExpr); ok {
			if cs, ok := ast.Unparen(sel.X).(*ast.SelectorExpr); ok {
				ot := info.Types[cs.X].Type
				if ot != nil {
					if tc := vc.prog.DB.Types[typeName(ot)]; tc != nil {
						if s := structOf(ot); s != nil {
							for _, ms := range tc.Monitors {
								for _, p := range ms.Protects {
									for i := 0; i < s.NumFields(); i++ {
										if s.Field(i).Name() == p {
											ef.untargeted(vc.fieldName(ot, s.Field(i)))
										}
									}
								}
								ef.waits = ef.waits || key == "(*sync.Cond).Wait"
							}
						}
					}
				}
			}
		}
		return
	}
	if c := vc.prog.DB.Funcs[key]; c != nil {
		for g := range vc.prog.contractGhostAssigns(c) {
			ef.ghosts[g] = true
		}
		if c.WritesArg >= 0 {
			if c.WritesArg < len(call.Args) {
				vc.objectTypePatterns(info.Types[call.Args[c.WritesArg]].Type, ef, 0)
			}
			ef.patterns = append(ef.patterns, "Elems", "Box")
			return
		}
		if c.Pure || c.NoHeap {
			return
		}
		if c.HasAssigns {
			star := false
			for _, a := range c.Assigns {
				if a == "*" || a == "**" {
					star = true
				} else if _, isGhost := vc.prog.DB.Ghosts[a]; !isGhost {
					ef.patterns = append(ef.patterns, a)
				}
			}
			if !star {
				ef.patterns = append(ef.patterns, libFieldsPattern)
				return
			}
		}
		if c.Inline {
			if fi := vc.prog.Funcs[key]; fi != nil && len(vc.frames) < 10 {
				// the callee is executed inline: its effects are those of its body
				fr := &callFrame{info: fi.Pkg.TypesInfo, pkg: fi.Pkg.Types, fnName: key, boxed: map[types.Object]bool{}, closures: map[types.Object]*ast.FuncLit{}}
				vc.frames = append(vc.frames, fr)
				sub := vc.effectsOf(fi.Decl.Body)
				vc.frames = vc.frames[:len(vc.frames)-1]
				for k := range sub.heap {
					ef.untargeted(k)
				}
				for k := range sub.allocd {
					if ef.allocd == nil {
						ef.allocd = map[string]bool{}
					}
					ef.allocd[k] = true
				}
				for k := range sub.ghosts {
					ef.ghosts[k] = true
				}
				for g := range vc.prog.GhostMods[key] {
					ef.ghosts[g] = true
				}
				ef.heapAll = ef.heapAll || sub.heapAll
				ef.heapExt = ef.heapExt || sub.heapExt
				ef.allocs = ef.allocs || sub.allocs
				ef.calls = ef.calls || sub.calls
				ef.patterns = append(ef.patterns, sub.patterns...)
				return
			}
		}
		if !c.HasAssigns && vc.prog.Funcs[key] == nil && fn.Pkg() != nil && !isRqlitePkg(fn.Pkg().Path()) && !vc.externalMayTouchRqlite(fn, call) {
			// library function with an assumed postcondition only: same heap effect as at its call
			ef.heapExt = true
			return
		}
		ef.heapAll = true
		return
	}
	if libraryPure(key, fn) {
		return
	}
	for g := range vc.prog.GhostMods[key] {
		ef.ghosts[g] = true
	}
	if vc.prog.HeapPure[key] {
		return
	}
	pkgPath := ""
	if fn.Pkg() != nil {
		pkgPath = fn.Pkg().Path()
	}
	if !isRqlitePkg(pkgPath) && !vc.externalMayTouchRqlite(fn, call) {
		ef.heapExt = true
		return
	}
	ef.heapAll = true
}
