package main

// Private local slices.
//
// A local slice variable v of the function under verification is *private* when the only way to
// reach its backing array is v itself: v is only ever assigned nil, a fresh make/composite literal
// or append(v, ...), and is otherwise only used in len/cap, v[i] (elements of pointer or basic
// type), range v and return v; it is never passed to a call, stored, re-sliced, address-taken,
// copied to another variable, or mentioned inside a closure that escapes (a literal that is not
// invoked on the spot or bound to a local that is only called; nothing under a go statement).
// A backing array allocated by this activation (base > alloc$base) for such a variable cannot be
// written by any callee: an opaque call keeps its contents (vc.havocHeap).

import (
	"go/ast"
	"go/token"
	"go/types"
)

func privateSlices(info *types.Info, body *ast.BlockStmt) map[types.Object]bool {
	cand := map[types.Object]bool{}
	bad := map[types.Object]bool{}
	if body == nil {
		return cand
	}
	elemOK := func(t types.Type) bool {
		s, ok := types.Unalias(t).Underlying().(*types.Slice)
		if !ok {
			return false
		}
		switch types.Unalias(s.Elem()).Underlying().(type) {
		case *types.Pointer, *types.Basic:
			return true
		}
		return false
	}
	// candidates: variables declared inside the body
	ast.Inspect(body, func(n ast.Node) bool {
		if id, ok := n.(*ast.Ident); ok {
			if o, ok := info.Defs[id].(*types.Var); ok && o != nil && !o.IsField() && elemOK(o.Type()) {
				cand[o] = true
			}
		}
		return true
	})
	if len(cand) == 0 {
		return cand
	}
	// closures bound to a local that is only ever called
	callOnly := map[*ast.FuncLit]bool{}
	litOf := map[types.Object]*ast.FuncLit{}
	ast.Inspect(body, func(n ast.Node) bool {
		switch x := n.(type) {
		case *ast.AssignStmt:
			if len(x.Lhs) == 1 && len(x.Rhs) == 1 {
				if fl, ok := ast.Unparen(x.Rhs[0]).(*ast.FuncLit); ok {
					if id, ok := x.Lhs[0].(*ast.Ident); ok {
						if o := info.ObjectOf(id); o != nil {
							if _, dup := litOf[o]; dup {
								litOf[o] = nil
							} else {
								litOf[o] = fl
							}
						}
					}
				}
			}
		}
		return true
	})
	notCallOnly := map[types.Object]bool{}
	var stack []ast.Node
	var walk func(n ast.Node)
	isUseOf := func(id *ast.Ident) types.Object {
		if o := info.Uses[id]; o != nil {
			return o
		}
		return nil
	}
	// pass 1: which closure variables are only called (and never under go)
	ast.Inspect(body, func(n ast.Node) bool {
		if n == nil {
			stack = stack[:len(stack)-1]
			return true
		}
		if id, ok := n.(*ast.Ident); ok {
			if o := isUseOf(id); o != nil {
				if _, isLit := litOf[o]; isLit {
					ok := false
					if len(stack) > 0 {
						if c, isCall := stack[len(stack)-1].(*ast.CallExpr); isCall && c.Fun == ast.Expr(id) {
							ok = true
							if len(stack) > 1 {
								if _, isGo := stack[len(stack)-2].(*ast.GoStmt); isGo {
									ok = false
								}
							}
						}
					}
					if !ok {
						notCallOnly[o] = true
					}
				}
			}
		}
		stack = append(stack, n)
		return true
	})
	for o, fl := range litOf {
		if fl != nil && !notCallOnly[o] {
			callOnly[fl] = true
		}
	}
	stack = nil
	litOK := func(fl *ast.FuncLit, parents []ast.Node) bool {
		if callOnly[fl] {
			return true
		}
		// invoked on the spot (also deferred), not under go
		if len(parents) > 0 {
			if c, ok := parents[len(parents)-1].(*ast.CallExpr); ok && ast.Unparen(c.Fun) == ast.Expr(fl) {
				if len(parents) > 1 {
					if _, isGo := parents[len(parents)-2].(*ast.GoStmt); isGo {
						return false
					}
				}
				return true
			}
		}
		return false
	}
	rhsOK := func(o types.Object, e ast.Expr) bool {
		e = ast.Unparen(e)
		switch x := e.(type) {
		case *ast.Ident:
			return x.Name == "nil" && info.Uses[x] == types.Universe.Lookup("nil")
		case *ast.CompositeLit:
			return true
		case *ast.CallExpr:
			if id, ok := ast.Unparen(x.Fun).(*ast.Ident); ok {
				if b, ok := info.Uses[id].(*types.Builtin); ok {
					if b.Name() == "make" {
						return true
					}
					if b.Name() == "append" && len(x.Args) >= 1 && !x.Ellipsis.IsValid() {
						if a0, ok := ast.Unparen(x.Args[0]).(*ast.Ident); ok && info.Uses[a0] == o {
							return true
						}
					}
				}
			}
		}
		return false
	}
	walk = func(n ast.Node) {
		if n == nil {
			return
		}
		if fl, ok := n.(*ast.FuncLit); ok {
			if !litOK(fl, stack) {
				// every candidate mentioned inside an escaping literal is not private
				ast.Inspect(fl, func(m ast.Node) bool {
					if id, ok := m.(*ast.Ident); ok {
						if o := info.ObjectOf(id); o != nil && cand[o] {
							bad[o] = true
						}
					}
					return true
				})
			}
		}
		if id, ok := n.(*ast.Ident); ok {
			o := info.Uses[id]
			if o != nil && cand[o] {
				if !useOK(info, o, id, stack, rhsOK) {
					bad[o] = true
				}
			}
			if d := info.Defs[id]; d != nil && cand[d] {
				// definition: x := rhs / var x T = rhs
				if len(stack) > 0 {
					switch p := stack[len(stack)-1].(type) {
					case *ast.AssignStmt:
						if len(p.Lhs) != len(p.Rhs) {
							bad[d] = true
						} else {
							for i, l := range p.Lhs {
								if l == ast.Expr(id) && !rhsOK(d, p.Rhs[i]) {
									bad[d] = true
								}
							}
						}
					case *ast.ValueSpec:
						if len(p.Values) != 0 {
							if len(p.Values) != len(p.Names) {
								bad[d] = true
							} else {
								for i, nm := range p.Names {
									if nm == id && !rhsOK(d, p.Values[i]) {
										bad[d] = true
									}
								}
							}
						}
					default:
						bad[d] = true // range variable, parameter of a literal, ...
					}
				}
			}
		}
		stack = append(stack, n)
		ast.Inspect(n, func(m ast.Node) bool {
			if m == n || m == nil {
				return m == n
			}
			walk(m)
			return false
		})
		stack = stack[:len(stack)-1]
	}
	walk(body)
	out := map[types.Object]bool{}
	for o := range cand {
		if !bad[o] {
			out[o] = true
		}
	}
	return out
}

func useOK(info *types.Info, o types.Object, id *ast.Ident, stack []ast.Node, rhsOK func(types.Object, ast.Expr) bool) bool {
	if len(stack) == 0 {
		return false
	}
	p := stack[len(stack)-1]
	switch x := p.(type) {
	case *ast.AssignStmt:
		if x.Tok != token.ASSIGN && x.Tok != token.DEFINE {
			return false
		}
		if len(x.Lhs) != len(x.Rhs) {
			return false
		}
		for i, l := range x.Lhs {
			if l == ast.Expr(id) {
				return rhsOK(o, x.Rhs[i])
			}
		}
		return false // used as a right-hand side value: copied
	case *ast.CallExpr:
		fid, ok := ast.Unparen(x.Fun).(*ast.Ident)
		if !ok {
			return false
		}
		b, ok := info.Uses[fid].(*types.Builtin)
		if !ok {
			return false
		}
		switch b.Name() {
		case "len", "cap":
			return true
		case "append":
			if len(x.Args) >= 1 && x.Args[0] == ast.Expr(id) && !x.Ellipsis.IsValid() && len(stack) > 1 {
				if as, ok := stack[len(stack)-2].(*ast.AssignStmt); ok && len(as.Lhs) == len(as.Rhs) {
					for i, r := range as.Rhs {
						if r == ast.Expr(x) {
							if l, ok := as.Lhs[i].(*ast.Ident); ok && info.ObjectOf(l) == o {
								return true
							}
						}
					}
				}
			}
		}
		return false
	case *ast.IndexExpr:
		if x.X != ast.Expr(id) {
			return false
		}
		if len(stack) > 1 {
			if u, ok := stack[len(stack)-2].(*ast.UnaryExpr); ok && u.Op == token.AND {
				return false
			}
		}
		return true
	case *ast.RangeStmt:
		return x.X == ast.Expr(id)
	case *ast.ReturnStmt:
		return true
	}
	return false
}
