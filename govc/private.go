package main

// Private local slices.
//
// A local slice variable v of the function under verification is *private* when the only way to
// reach its backing array is v itself: v is only ever assigned nil, a fresh make/composite literal
// or append(v, ...), and is otherwise only used in len/cap, v[i] (elements of pointer or basic
// type), range v and return v; it is never passed to a call, stored, re-sliced, address-taken,
// copied to another variable, or mentioned inside a closure that escapes (a literal that is not
// invoked on the spot or bound to a local that is only called; nothing under a go statement).
// A backing array allocated by this activation (base > alloc$base) for such a variable cannot be
// written by any callee: an opaque call keeps its contents (vc.havocHeap).

import (
	"go/ast"
	"go/token"
	"go/types"
	"sort"
)

func privateSlices(info *types.Info, body *ast.BlockStmt) map[types.Object]bool {
	cand := map[types.Object]bool{}
	bad := map[types.Object]bool{}
	if body == nil {
		return cand
	}
	elemOK := func(t types.Type) bool {
		s, ok := types.Unalias(t).Underlying().(*types.Slice)
		if !ok {
			return false
		}
		switch types.Unalias(s.Elem()).Underlying().(type) {
		case *types.Pointer, *types.Basic:
			return true
		}
		return false
	}
	// candidates: variables declared inside the body
	ast.Inspect(body, func(n ast.Node) bool {
		if id, ok := n.(*ast.Ident); ok {
			if o, ok := info.Defs[id].(*types.Var); ok && o != nil && !o.IsField() && elemOK(o.Type()) {
				cand[o] = true
			}
		}
		return true
	})
	if len(cand) == 0 {
		return cand
	}
	// closures bound to a local that is only ever called
	callOnly := map[*ast.FuncLit]bool{}
	litOf := map[types.Object]*ast.FuncLit{}
	ast.Inspect(body, func(n ast.Node) bool {
		switch x := n.(type) {
		case *ast.AssignStmt:
			if len(x.Lhs) == 1 && len(x.Rhs) == 1 {
				if fl, ok := ast.Unparen(x.Rhs[0]).(*ast.FuncLit); ok {
					if id, ok := x.Lhs[0].(*ast.Ident); ok {
						if o := info.ObjectOf(id); o != nil {
							if _, dup := litOf[o]; dup {
								litOf[o] = nil
							} else {
								litOf[o] = fl
							}
						}
					}
				}
			}
		}
		return true
	})
	notCallOnly := map[types.Object]bool{}
	var stack []ast.Node
	var walk func(n ast.Node)
	isUseOf := func(id *ast.Ident) types.Object {
		if o := info.Uses[id]; o != nil {
			return o
		}
		return nil
	}
	// pass 1: which closure variables are only called (and never under go)
	ast.Inspect(body, func(n ast.Node) bool {
		if n == nil {
			stack = stack[:len(stack)-1]
			return true
		}
		if id, ok := n.(*ast.Ident); ok {
			if o := isUseOf(id); o != nil {
				if _, isLit := litOf[o]; isLit {
					ok := false
					if len(stack) > 0 {
						if c, isCall := stack[len(stack)-1].(*ast.CallExpr); isCall && c.Fun == ast.Expr(id) {
							ok = true
							if len(stack) > 1 {
								if _, isGo := stack[len(stack)-2].(*ast.GoStmt); isGo {
									ok = false
								}
							}
						}
					}
					if !ok {
						notCallOnly[o] = true
					}
				}
			}
		}
		stack = append(stack, n)
		return true
	})
	for o, fl := range litOf {
		if fl != nil && !notCallOnly[o] {
			callOnly[fl] = true
		}
	}
	stack = nil
	litOK := func(fl *ast.FuncLit, parents []ast.Node) bool {
		if callOnly[fl] {
			return true
		}
		// invoked on the spot (also deferred), not under go
		if len(parents) > 0 {
			if c, ok := parents[len(parents)-1].(*ast.CallExpr); ok && ast.Unparen(c.Fun) == ast.Expr(fl) {
				if len(parents) > 1 {
					if _, isGo := parents[len(parents)-2].(*ast.GoStmt); isGo {
						return false
					}
				}
				return true
			}
		}
		return false
	}
	rhsOK := func(o types.Object, e ast.Expr) bool {
		e = ast.Unparen(e)
		switch x := e.(type) {
		case *ast.Ident:
			return x.Name == "nil" && info.Uses[x] == types.Universe.Lookup("nil")
		case *ast.CompositeLit:
			return true
		case *ast.CallExpr:
			if id, ok := ast.Unparen(x.Fun).(*ast.Ident); ok {
				if b, ok := info.Uses[id].(*types.Builtin); ok {
					if b.Name() == "make" {
						return true
					}
					if b.Name() == "append" && len(x.Args) >= 1 && !x.Ellipsis.IsValid() {
						if a0, ok := ast.Unparen(x.Args[0]).(*ast.Ident); ok && info.Uses[a0] == o {
							return true
						}
					}
				}
			}
		}
		return false
	}
	walk = func(n ast.Node) {
		if n == nil {
			return
		}
		if fl, ok := n.(*ast.FuncLit); ok {
			if !litOK(fl, stack) {
				// every candidate mentioned inside an escaping literal is not private
				ast.Inspect(fl, func(m ast.Node) bool {
					if id, ok := m.(*ast.Ident); ok {
						if o := info.ObjectOf(id); o != nil && cand[o] {
							bad[o] = true
						}
					}
					return true
				})
			}
		}
		if id, ok := n.(*ast.Ident); ok {
			o := info.Uses[id]
			if o != nil && cand[o] {
				if !useOK(info, o, id, stack, rhsOK) {
					bad[o] = true
				}
			}
			if d := info.Defs[id]; d != nil && cand[d] {
				// definition: x := rhs / var x T = rhs
				if len(stack) > 0 {
					switch p := stack[len(stack)-1].(type) {
					case *ast.AssignStmt:
						if len(p.Lhs) != len(p.Rhs) {
							bad[d] = true
						} else {
							for i, l := range p.Lhs {
								if l == ast.Expr(id) && !rhsOK(d, p.Rhs[i]) {
									bad[d] = true
								}
							}
						}
					case *ast.ValueSpec:
						if len(p.Values) != 0 {
							if len(p.Values) != len(p.Names) {
								bad[d] = true
							} else {
								for i, nm := range p.Names {
									if nm == id && !rhsOK(d, p.Values[i]) {
										bad[d] = true
									}
								}
							}
						}
					default:
						bad[d] = true // range variable, parameter of a literal, ...
					}
				}
			}
		}
		stack = append(stack, n)
		ast.Inspect(n, func(m ast.Node) bool {
			if m == n || m == nil {
				return m == n
			}
			walk(m)
			return false
		})
		stack = stack[:len(stack)-1]
	}
	walk(body)
	out := map[types.Object]bool{}
	for o := range cand {
		if !bad[o] {
			out[o] = true
		}
	}
	return out
}

func useOK(info *types.Info, o types.Object, id *ast.Ident, stack []ast.Node, rhsOK func(types.Object, ast.Expr) bool) bool {
	if len(stack) == 0 {
		return false
	}
	p := stack[len(stack)-1]
	switch x := p.(type) {
	case *ast.AssignStmt:
		if x.Tok != token.ASSIGN && x.Tok != token.DEFINE {
			return false
		}
		if len(x.Lhs) != len(x.Rhs) {
			return false
		}
		for i, l := range x.Lhs {
			if l == ast.Expr(id) {
				return rhsOK(o, x.Rhs[i])
			}
		}
		return false // used as a right-hand side value: copied
	case *ast.CallExpr:
		fid, ok := ast.Unparen(x.Fun).(*ast.Ident)
		if !ok {
			return false
		}
		b, ok := info.Uses[fid].(*types.Builtin)
		if !ok {
			return false
		}
		switch b.Name() {
		case "len", "cap":
			return true
		case "append":
			if len(x.Args) >= 1 && x.Args[0] == ast.Expr(id) && !x.Ellipsis.IsValid() && len(stack) > 1 {
				if as, ok := stack[len(stack)-2].(*ast.AssignStmt); ok && len(as.Lhs) == len(as.Rhs) {
					for i, r := range as.Rhs {
						if r == ast.Expr(x) {
							if l, ok := as.Lhs[i].(*ast.Ident); ok && info.ObjectOf(l) == o {
								return true
							}
						}
					}
				}
			}
		}
		return false
	case *ast.IndexExpr:
		if x.X != ast.Expr(id) {
			return false
		}
		if len(stack) > 1 {
			if u, ok := stack[len(stack)-2].(*ast.UnaryExpr); ok && u.Op == token.AND {
				return false
			}
		}
		return true
	case *ast.RangeStmt:
		return x.X == ast.Expr(id)
	case *ast.ReturnStmt:
		return true
	}
	return false
}

// Private struct locals.
//
// A parameter or local of struct VALUE type lives in the activation record: callees can reach it
// only through a pointer the activation hands out. If the variable is never explicitly
// address-taken (&x) and is not mentioned inside a closure that escapes, the only pointers to it
// are the implicit receivers of method calls made on it, whose effect is accounted for at that
// call (by the callee's contract or the opaque-call rule); no later call can write to it. An
// opaque call therefore keeps its top-level fields (vc.havocHeap).
func privateStructs(info *types.Info, ftype *ast.FuncType, body *ast.BlockStmt) map[types.Object]bool {
	cand := map[types.Object]bool{}
	bad := map[types.Object]bool{}
	if body == nil {
		return cand
	}
	add := func(id *ast.Ident) {
		if o, ok := info.Defs[id].(*types.Var); ok && o != nil && !o.IsField() && isStructVal(o.Type()) {
			cand[o] = true
		}
	}
	if ftype != nil && ftype.Params != nil {
		for _, f := range ftype.Params.List {
			for _, nm := range f.Names {
				add(nm)
			}
		}
	}
	ast.Inspect(body, func(n ast.Node) bool {
		if id, ok := n.(*ast.Ident); ok {
			add(id)
		}
		return true
	})
	if len(cand) == 0 {
		return cand
	}
	var stack []ast.Node
	ast.Inspect(body, func(n ast.Node) bool {
		if n == nil {
			stack = stack[:len(stack)-1]
			return true
		}
		switch x := n.(type) {
		case *ast.UnaryExpr:
			if x.Op == token.AND {
				if id, ok := ast.Unparen(x.X).(*ast.Ident); ok {
					if o := info.ObjectOf(id); o != nil && cand[o] {
						bad[o] = true
					}
				}
			}
		case *ast.FuncLit:
			// conservative: any mention inside a literal that is not invoked on the spot
			invoked := false
			if len(stack) > 0 {
				if c, ok := stack[len(stack)-1].(*ast.CallExpr); ok && ast.Unparen(c.Fun) == ast.Expr(x) {
					invoked = true
					if len(stack) > 1 {
						if _, isGo := stack[len(stack)-2].(*ast.GoStmt); isGo {
							invoked = false
						}
					}
				}
			}
			if !invoked {
				ast.Inspect(x, func(m ast.Node) bool {
					if id, ok := m.(*ast.Ident); ok {
						if o := info.ObjectOf(id); o != nil && cand[o] {
							bad[o] = true
						}
					}
					return true
				})
			}
		}
		stack = append(stack, n)
		return true
	})
	out := map[types.Object]bool{}
	for o := range cand {
		if !bad[o] {
			out[o] = true
		}
	}
	return out
}

// snapshotFields records the current terms of the field arrays (before a havoc).
func (vc *VC) snapshotFields(st *State) map[string]Term {
	if len(vc.privStructs) == 0 && len(vc.privPtrs) == 0 {
		return nil
	}
	old := map[string]Term{}
	for n, t := range st.heap {
		if len(n) > 2 && n[:2] == "F$" {
			old[n] = t
		}
	}
	return old
}

// keepPrivateStructs: after a havoc caused by a call, the top-level fields of the private struct
// locals keep their values — except for a struct that the call itself was made on (receiver) or was
// given (argument): that call's own effect on it is whatever its contract / the opaque rule says.
func (vc *VC) keepPrivateStructs(st *State, old map[string]Term) {
	if (len(vc.privStructs) == 0 && len(vc.privPtrs) == 0) || old == nil {
		return
	}
	involved := map[types.Object]bool{}
	if c := vc.curCall; c != nil {
		mark := func(e ast.Expr) {
			for {
				e = ast.Unparen(e)
				switch x := e.(type) {
				case *ast.SelectorExpr:
					e = x.X
					continue
				case *ast.UnaryExpr:
					e = x.X
					continue
				case *ast.Ident:
					if o := vc.frames[0].info.ObjectOf(x); o != nil {
						involved[o] = true
					}
				}
				return
			}
		}
		if sel, ok := ast.Unparen(c.Fun).(*ast.SelectorExpr); ok {
			mark(sel.X)
		}
		for _, a := range c.Args {
			mark(a)
		}
	}
	var objs []types.Object
	for o := range st.vars {
		if (vc.privStructs[o] || vc.privPtrs[o]) && !involved[o] && st.vars[o].Sort == SInt {
			objs = append(objs, o)
		}
	}
	sort.Slice(objs, func(i, j int) bool { return objs[i].Pos() < objs[j].Pos() })
	for _, o := range objs {
		s := structOf(o.Type())
		if s == nil {
			continue
		}
		id := st.vars[o]
		kept := false
		for i := 0; i < s.NumFields(); i++ {
			f := s.Field(i)
			if isStructVal(f.Type()) {
				continue
			}
			n := vc.fieldName(o.Type(), f)
			was, ok := old[n]
			if !ok {
				continue
			}
			if cur, ok := st.heap[n]; ok && cur.S != was.S {
				if vc.privPtrs[o] {
					// the object under construction was allocated by this activation
					st.assume(Implies(app(SBool, ">", id, Term{"alloc$base", SInt}), Eq(Select(cur, id), Select(was, id))))
				} else {
					st.assume(Eq(Select(cur, id), Select(was, id)))
				}
				kept = true
			}
		}
		if kept {
			vc.notes["private struct local / object under construction "+o.Name()+": fields kept across calls not made on it"]++
		}
	}
}

// Private fresh pointers.
//
// A local pointer variable that is only ever assigned the address of a composite literal or
// new(T), and is otherwise used only to select fields (p.f, read or written), in comparisons with
// nil and in return statements — never passed to a call, used as a method receiver, stored,
// copied, or mentioned in an escaping closure — points to an object under construction that
// nothing else can reach: opaque calls keep its top-level fields.
func privatePointers(info *types.Info, body *ast.BlockStmt) map[types.Object]bool {
	cand := map[types.Object]bool{}
	bad := map[types.Object]bool{}
	if body == nil {
		return cand
	}
	ast.Inspect(body, func(n ast.Node) bool {
		if id, ok := n.(*ast.Ident); ok {
			if o, ok := info.Defs[id].(*types.Var); ok && o != nil && !o.IsField() {
				if p, ok := types.Unalias(o.Type()).Underlying().(*types.Pointer); ok && structOf(p.Elem()) != nil {
					cand[o] = true
				}
			}
		}
		return true
	})
	if len(cand) == 0 {
		return cand
	}
	freshRHS := func(e ast.Expr) bool {
		e = ast.Unparen(e)
		switch x := e.(type) {
		case *ast.UnaryExpr:
			if x.Op == token.AND {
				_, ok := ast.Unparen(x.X).(*ast.CompositeLit)
				return ok
			}
		case *ast.CallExpr:
			if id, ok := ast.Unparen(x.Fun).(*ast.Ident); ok {
				if b, ok := info.Uses[id].(*types.Builtin); ok && b.Name() == "new" {
					return true
				}
			}
		}
		return false
	}
	var stack []ast.Node
	ast.Inspect(body, func(n ast.Node) bool {
		if n == nil {
			stack = stack[:len(stack)-1]
			return true
		}
		defer func() { stack = append(stack, n) }()
		if fl, ok := n.(*ast.FuncLit); ok {
			invoked := false
			if len(stack) > 0 {
				if c, ok := stack[len(stack)-1].(*ast.CallExpr); ok && ast.Unparen(c.Fun) == ast.Expr(fl) {
					invoked = true
					if len(stack) > 1 {
						if _, isGo := stack[len(stack)-2].(*ast.GoStmt); isGo {
							invoked = false
						}
					}
				}
			}
			if !invoked {
				ast.Inspect(fl, func(m ast.Node) bool {
					if id, ok := m.(*ast.Ident); ok {
						if o := info.ObjectOf(id); o != nil && cand[o] {
							bad[o] = true
						}
					}
					return true
				})
			}
			return true
		}
		id, ok := n.(*ast.Ident)
		if !ok {
			return true
		}
		var o types.Object
		isDef := false
		if d := info.Defs[id]; d != nil && cand[d] {
			o, isDef = d, true
		} else if u := info.Uses[id]; u != nil && cand[u] {
			o = u
		}
		if o == nil || len(stack) == 0 {
			return true
		}
		switch p := stack[len(stack)-1].(type) {
		case *ast.AssignStmt:
			okUse := false
			if len(p.Lhs) == len(p.Rhs) {
				for i, l := range p.Lhs {
					if l == ast.Expr(id) && freshRHS(p.Rhs[i]) {
						okUse = true
					}
				}
			}
			if !okUse {
				bad[o] = true
			}
		case *ast.ValueSpec:
			okUse := len(p.Values) == 0
			for i, nm := range p.Names {
				if nm == id && i < len(p.Values) && freshRHS(p.Values[i]) {
					okUse = true
				}
			}
			if !okUse {
				bad[o] = true
			}
		case *ast.SelectorExpr:
			if p.X != ast.Expr(id) {
				bad[o] = true
				break
			}
			// a method call p.M() hands p out
			if sel, ok := info.Selections[p]; ok && sel.Kind() != types.FieldVal {
				bad[o] = true
			}
		case *ast.ReturnStmt:
		case *ast.BinaryExpr:
			if p.Op != token.EQL && p.Op != token.NEQ {
				bad[o] = true
			}
		default:
			_ = isDef
			bad[o] = true
		}
		return true
	})
	out := map[types.Object]bool{}
	for o := range cand {
		if !bad[o] {
			out[o] = true
		}
	}
	return out
}

// havocPackageFields: effect of a package-level library function that was given only numbers and
// strings: it holds no reference into the program, so the only objects it can write are the
// fields and package variables of its own package.
func (vc *VC) havocPackageFields(st *State, pkg string) {
	old := vc.snapshotFields(st)
	defer vc.keepPrivateStructs(st, old)
	for _, n := range vc.sortedUniverse() {
		if len(n) > 2 && (n[:2] == "F$" || n[:2] == "G$") && heapPkg[n] == pkg && !heapStructVal[n] {
			st.heap[n] = vc.fresh(n, vc.universe[n])
		}
	}
}

// namedInPkg: t (or what it points to) is a named type declared in package pkg.
func namedInPkg(t types.Type, pkg string) bool {
	t = types.Unalias(t)
	if p, ok := t.(*types.Pointer); ok {
		t = types.Unalias(p.Elem())
	}
	n, ok := t.(*types.Named)
	return ok && n.Obj().Pkg() != nil && n.Obj().Pkg().Path() == pkg
}
