package main

import "regexp"

// f64constRe matches the uninterpreted constants that stand for floating-point literals.
var f64constRe = regexp.MustCompile(`\bf64c_[A-Za-z0-9_.$]+`)
