package main

import (
	"fmt"
	"os"
)

func usage() {
	fmt.Fprintln(os.Stderr, "usage: govc check <Cxx> [--tier quick|thorough] [--update-baseline] [--only substr]")
	os.Exit(2)
}

func main() {
	if len(os.Args) < 3 {
		usage()
	}
	switch os.Args[1] {
	case "check":
		id := os.Args[2]
		tier := os.Getenv("VERIF_TIER")
		if tier == "" {
			tier = "quick"
		}
		upd := false
		only := ""
		for i := 3; i < len(os.Args); i++ {
			switch os.Args[i] {
			case "--tier":
				i++
				tier = os.Args[i]
			case "--update-baseline":
				upd = true
			case "--only":
				i++
				only = os.Args[i]
			default:
				usage()
			}
		}
		os.Exit(runCheck(id, tier, upd, only))
	default:
		usage()
	}
}
