package main

// A call to a local closure that has a contract of its own ("<function>$<name>") is checked against
// that contract instead of being inlined: requires asserted in the caller's state, every captured
// local the literal assigns havocked (plus the heap when the contract says "assigns *"/"**"),
// ensures assumed with old() = the state at the call.

import (
	"fmt"
	"go/ast"
	"go/types"
)

func (vc *VC) closureContractFor(name string) *FuncContract {
	if vc.fn == nil || len(vc.frames) != 1 {
		return nil
	}
	return vc.prog.DB.Funcs[vc.fn.Key+"$"+name]
}

func (vc *VC) closureContractCall(st *State, call *ast.CallExpr, c *FuncContract, fl *ast.FuncLit, args []Term) []Term {
	vc.assumedC[c.Key]++
	sig, _ := vc.info().Types[fl].Type.(*types.Signature)
	names := map[string]Val{}
	if sig != nil {
		for i := 0; i < sig.Params().Len() && i < len(args); i++ {
			p := sig.Params().At(i)
			if p.Name() != "" && p.Name() != "_" {
				names[p.Name()] = Val{args[i], p.Type()}
			}
			names[fmt.Sprintf("arg%d", i)] = Val{args[i], p.Type()}
		}
	}
	env := &SpecEnv{vc: vc, st: st, old: st, names: names, pkg: vc.cur().pkg, scopePos: call.Pos(), useLocals: true}
	for _, r := range c.Requires {
		g := vc.specEvalBool(env, r.Expr)
		name := fmt.Sprintf("%s#requires@%s[%s]", vc.fn.Key, shortKey(c.Key), r.Label)
		vc.oblCount[name]++
		if n := vc.oblCount[name]; n > 1 {
			name += fmt.Sprintf("#%d", n)
		}
		vc.assert(st, name, "call-requires", call.Pos(), r.Src, g)
		st.assume(g)
	}
	pre := st.clone()
	ef := vc.effectsOf(fl.Body)
	// locals declared inside the literal are not the caller's
	h := vc.havocEffects(st, ef, call)
	*st = *h
	heapAll := !c.HasAssigns
	for _, a := range c.Assigns {
		if a == "*" || a == "**" {
			heapAll = true
		}
	}
	if heapAll {
		vc.havocHeap(st, c.Key)
	} else {
		for _, a := range c.Assigns {
			if _, ok := vc.prog.DB.Ghosts[a]; !ok {
				vc.havocPattern(st, a)
			}
		}
		vc.havocLibraryFields(st)
	}
	vc.havocGhosts(st, vc.prog.contractGhostAssigns(c))
	var rs []Term
	if sig != nil {
		for i := 0; i < sig.Results().Len(); i++ {
			t := sig.Results().At(i).Type()
			v := vc.fresh("r$closure", sortOfType(t))
			st.assume(vc.rangeFact(t, v))
			vc.assumeAllocated(st, v, t)
			rs = append(rs, v)
		}
		bindResultNames(names, sig, rs)
	}
	env2 := &SpecEnv{vc: vc, st: st, old: pre, names: names, pkg: vc.cur().pkg, scopePos: call.Pos(), useLocals: true}
	for _, e := range c.Ensures {
		skip := false
		for _, g := range c.GhostVars {
			if specMentions(e.Expr, g.Name) {
				skip = true
			}
		}
		if skip || specMentions(e.Expr, "atlock") {
			continue
		}
		st.assume(vc.nameTerm("ens", vc.specEvalBool(env2, e.Expr)))
	}
	return rs
}
