package main

// Property checks: configuration, obligation discharge, evidence, violations.

import (
	"encoding/json"
	"fmt"
	"os"
	"os/exec"
	"path/filepath"
	"regexp"
	"sort"
	"strings"
	"sync"
	"time"
)

type PropConfig struct {
	ID          string   `json:"id"`
	Packages    []string `json:"packages"`
	Specs       []string `json:"specs"`
	Functions   []string `json:"functions"`
	TrustedBase []string `json:"trusted_base"`
	Assumptions []string `json:"assumptions"`
	NotDecided  []string `json:"not_decided"`
	Extra       []string `json:"extra"` // extra engines: "regexincl:<name>", "lemmas:<file>"
	Bounded     []string `json:"bounded"`
	// Elsewhere: regexes of obligation names that belong to another property's claim (the
	// function is shared); they are generated but neither counted nor reported here.
	Elsewhere map[string]string `json:"decided_elsewhere"`
}

type KnownFinding struct {
	Property   string `json:"property"`
	Obligation string `json:"obligation"`
	What       string `json:"what"`
	Status     string `json:"status"` // open | fixed
	Commit     string `json:"commit,omitempty"`
}

type OblReport struct {
	Name   string  `json:"name"`
	Kind   string  `json:"kind"`
	Pos    string  `json:"pos,omitempty"`
	Clause string  `json:"clause,omitempty"`
	Status string  `json:"status"`
	Solver string  `json:"solver,omitempty"`
	Secs   float64 `json:"secs"`
}

type checkResult struct {
	obls       []*Obligation
	funcs      []map[string]any
	opaque     map[string]int
	notes      map[string]int
	assumedC   map[string]int
	machineErr []string
}

func loadJSON(path string, v any) error {
	b, err := os.ReadFile(path)
	if err != nil {
		return err
	}
	return json.Unmarshal(b, v)
}

func verifDir() string {
	if d := os.Getenv("VERIF_DIR"); d != "" {
		return d
	}
	return "/verif"
}

func outDir() string {
	if d := os.Getenv("VERIF_DIR_OUT"); d != "" {
		return d
	}
	return verifDir()
}

func repoDir() string {
	if d := os.Getenv("VERIF_REPO"); d != "" {
		return d
	}
	return "/repo"
}

func runCheck(id, tier string, updateBaseline bool, only string) int {
	t0 := time.Now()
	vd := verifDir()
	var cfg PropConfig
	if err := loadJSON(filepath.Join(vd, "props", id+".json"), &cfg); err != nil {
		fmt.Fprintf(os.Stderr, "govc: cannot load property config: %v\n", err)
		return 2
	}
	seed := 0
	fmt.Sscanf(os.Getenv("VERIF_SEED"), "%d", &seed)
	if only == "" {
		os.RemoveAll(filepath.Join(outDir(), "replays", id)) // replay files describe this run only
	}
	var specs []string
	for _, s := range cfg.Specs {
		if !filepath.IsAbs(s) {
			s = filepath.Join(vd, s)
		}
		specs = append(specs, s)
	}
	for _, p := range cfg.Packages {
		rqShortPkgs[strings.ReplaceAll(strings.TrimPrefix(p, "./"), "/", ".")] = true
	}
	prog, err := LoadProg(repoDir(), cfg.Packages, specs)
	prof := func(what string) {
		if os.Getenv("GOVC_PROFILE") != "" {
			fmt.Fprintf(os.Stderr, "govc: profile: %s at %.1fs\n", what, time.Since(t0).Seconds())
		}
	}
	prof("loaded")
	defer prof("done")
	if err != nil {
		fmt.Fprintf(os.Stderr, "govc: load failed: %v\n", err)
		// A tree that does not compile is not a property violation; report as machinery error.
		return 2
	}
	res := &checkResult{opaque: map[string]int{}, notes: map[string]int{}, assumedC: map[string]int{}}
	var mu sync.Mutex
	var wg sync.WaitGroup
	sem := make(chan struct{}, 1) // generation is sequential (global tables); solving is parallel
	for _, f := range cfg.Functions {
		f := f
		if only != "" && !strings.Contains(f, only) {
			continue
		}
		wg.Add(1)
		sem <- struct{}{}
		go func() {
			defer wg.Done()
			defer func() { <-sem }()
			defer func() {
				if r := recover(); r != nil {
					mu.Lock()
					res.machineErr = append(res.machineErr, fmt.Sprintf("%s: panic in generator: %v", f, r))
					mu.Unlock()
				}
			}()
			vc, err := prog.VerifyFunc(f)
			mu.Lock()
			defer mu.Unlock()
			if err != nil {
				res.machineErr = append(res.machineErr, err.Error())
				return
			}
			for _, e := range vc.errs {
				res.machineErr = append(res.machineErr, vc.fn.Key+": "+e)
			}
			res.obls = append(res.obls, vc.obls...)
			for k, v := range vc.opaque {
				res.opaque[k] += v
			}
			for k, v := range vc.notes {
				res.notes[k] += v
			}
			for k, v := range vc.assumedC {
				res.assumedC[k] += v
			}
			res.funcs = append(res.funcs, map[string]any{"function": shortKey(vc.fn.Key), "file": prog.relFile(vc.fn.Decl.Pos()), "obligations": len(vc.obls), "safe": vc.safe})
		}()
	}
	wg.Wait()
	// extra engines
	for _, ex := range cfg.Extra {
		obls, errs := runExtra(prog, ex)
		res.obls = append(res.obls, obls...)
		res.machineErr = append(res.machineErr, errs...)
	}
	for _, so := range prog.StableObligations() {
		o := &Obligation{Name: so.Name, Kind: "stable-field", Pos: so.Pos, Src: so.Msg, Static: true, Goal: TTrue, PC: TTrue}
		if so.OK {
			o.Result = SolverResult{Status: "unsat", Solver: "syntactic scan"}
		} else {
			o.Result = SolverResult{Status: "sat", Solver: "syntactic scan", Raw: so.Msg, Model: so.Msg}
		}
		res.obls = append(res.obls, o)
	}
	var elsewhere []string
	if len(cfg.Elsewhere) > 0 {
		var keep []*Obligation
		for _, o := range res.obls {
			skipped := false
			for re, prop := range cfg.Elsewhere {
				if m, _ := regexp.MatchString(re, o.Name); m {
					elsewhere = append(elsewhere, shortKey(o.Name)+" — decided by the check of "+prop)
					skipped = true
					break
				}
			}
			if !skipped {
				keep = append(keep, o)
			}
		}
		res.obls = keep
	}
	sort.Slice(res.obls, func(i, j int) bool { return res.obls[i].Name < res.obls[j].Name })
	// discharge
	timeout := 10
	needTwo := false
	if tier == "thorough" {
		timeout = 60
		needTwo = true
	}
	if os.Getenv("GOVC_DUMP") != "" {
		os.MkdirAll(os.Getenv("GOVC_DUMP"), 0o755)
		for _, o := range res.obls {
			os.WriteFile(filepath.Join(os.Getenv("GOVC_DUMP"), sanitize(o.Name)+".smt2"), []byte(o.Query()), 0o644)
		}
	}
	osem := make(chan struct{}, 6)
	for _, o := range res.obls {
		o := o
		wg.Add(1)
		osem <- struct{}{}
		go func() {
			defer wg.Done()
			defer func() { <-osem }()
			if o.Static {
				return
			}
			q := o.Query()
			if o.Cover {
				o.Result = runSolversCover(q, 5)
				return
			}
			r := runSolvers(q, timeout, needTwo)
			if r.Status != "unsat" && r.Status != "sat" && o.Label != "" {
				// retry with the quantified hypotheses of other labels dropped (sound: fewer assumptions)
				if qs := o.QuerySliced(o.Label); qs != q {
					r2 := runSolvers(qs, timeout, needTwo)
					if r2.Status == "unsat" {
						r2.Solver += " [hypotheses sliced to label " + labelStem(o.Label) + "]"
						r = r2
					}
				}
			}
			if r.Status != "unsat" && r.Status != "sat" {
				r2 := runSolvers(q, timeout*3, false)
				if r2.Status == "unsat" || r2.Status == "sat" {
					r = r2
				}
			}
			if r.Status != "unsat" && r.Status != "sat" {
				// last resort: case split on the choice variable of a select statement (each case is
				// a strengthening of the query; all cases together are exhaustive)
				if r3, ok := caseSplitOnChoice(q, timeout); ok {
					r = r3
				}
			}
			o.Result = r
		}()
	}
	wg.Wait()

	// baseline
	basePath := filepath.Join(vd, "baseline", id+".json")
	var baseline []string
	loadJSON(basePath, &baseline)
	if updateBaseline {
		var names []string
		for _, o := range res.obls {
			if !o.Cover {
				names = append(names, o.Name)
			}
		}
		os.MkdirAll(filepath.Dir(basePath), 0o755)
		b, _ := json.MarshalIndent(names, "", " ")
		os.WriteFile(basePath, b, 0o644)
		baseline = names
	}
	var known struct {
		Findings []KnownFinding `json:"findings"`
	}
	loadJSON(filepath.Join(vd, "known_findings.json"), &known)

	generated := map[string]*Obligation{}
	for _, o := range res.obls {
		generated[o.Name] = o
	}
	var reports []OblReport
	nObl, nDis := 0, 0
	violations := 0
	var out []string
	solverTime := 0.0
	bySolver := map[string]int{}
	vacuous := 0
	var knownHit []string
	failObl := func(name string, o *Obligation, reason string) {
		// known finding?
		for _, k := range known.Findings {
			if k.Property == id && k.Status == "open" && k.Obligation == name {
				out = append(out, fmt.Sprintf("KNOWN-FINDING: property=%s %s", id, k.What))
				// a recorded defect is not part of the proof claim: not counted as an obligation
				nObl--
				knownHit = append(knownHit, shortKey(name)+": "+k.What)
				return
			}
		}
		violations++
		rp, reproduced := writeReplay(outDir(), id, name, o, reason)
		if reproduced {
			out = append(out, fmt.Sprintf("VIOLATION property=%s replay=%s obligation=%s", id, rp, name))
		} else {
			out = append(out, fmt.Sprintf("VIOLATION property=%s replay=%s obligation=%s no-failing-input-found", id, rp, name))
		}
	}
	for _, o := range res.obls {
		rep := OblReport{Name: shortKey(o.Name), Kind: o.Kind, Pos: o.Pos, Clause: o.Src, Status: o.Result.Status, Solver: o.Result.Solver, Secs: o.Result.Secs}
		solverTime += o.Result.Secs
		if o.Cover {
			if o.Result.Status == "unsat" {
				vacuous++
				rep.Status = "VACUOUS"
				res.machineErr = append(res.machineErr, "vacuity: "+o.Name+" is unreachable (contradictory assumptions)")
			} else {
				rep.Status = "reachable(" + o.Result.Status + ")"
			}
			reports = append(reports, rep)
			continue
		}
		nObl++
		if o.Result.Status == "unsat" {
			nDis++
			bySolver[strings.TrimSuffix(o.Result.Solver, " (cached)")]++
		} else if o.Result.Status == "error" {
			// the solvers rejected the query: a generator bug, not a verdict about the code
			res.machineErr = append(res.machineErr, "solver error on "+o.Name+": "+firstLines(o.Result.Raw, 2))
		} else {
			failObl(o.Name, o, o.Result.Status)
		}
		reports = append(reports, rep)
	}
	for _, b := range baseline {
		if only != "" {
			break
		}
		if _, ok := generated[b]; !ok {
			nObl++
			failObl(b, nil, "obligation of the baseline is no longer generated (function or contract clause missing)")
			reports = append(reports, OblReport{Name: shortKey(b), Status: "missing"})
		}
	}
	// known findings that are expected to fail must still fail (canaries)
	for _, k := range known.Findings {
		if k.Property == id && k.Status == "open" {
			if o, ok := generated[k.Obligation]; ok && o.Result.Status == "unsat" {
				res.machineErr = append(res.machineErr, "known finding "+k.Obligation+" now verifies: update known_findings.json")
			}
		}
	}
	if nObl == 0 {
		res.machineErr = append(res.machineErr, "no obligations generated")
	}
	for _, l := range out {
		fmt.Println(l)
	}
	// evidence
	var samples []any
	for _, o := range res.obls {
		if len(samples) >= 4 {
			break
		}
		if o.Cover || o.Kind == "frame" {
			continue
		}
		samples = append(samples, map[string]any{"obligation": shortKey(o.Name), "kind": o.Kind, "source": o.Pos, "clause": o.Src, "path_condition": trunc(o.PC.S, 600), "goal": trunc(o.Goal.S, 600), "status": o.Result.Status, "solver": o.Result.Solver})
	}
	var opaque []string
	for k, v := range res.opaque {
		opaque = append(opaque, fmt.Sprintf("%s (x%d)", shortKey(k), v))
	}
	sort.Strings(opaque)
	var notes []string
	for k, v := range res.notes {
		notes = append(notes, fmt.Sprintf("%s (x%d)", k, v))
	}
	sort.Strings(notes)
	var assumedC []string
	for k := range res.assumedC {
		verified := false
		for _, f := range cfg.Functions {
			if normKey(f) == k {
				verified = true
			}
		}
		tag := "assumed here"
		if verified {
			tag = "verified in this check"
		} else if prog.Funcs[k] == nil {
			tag = "external/interface: trusted"
		}
		assumedC = append(assumedC, shortKey(k)+" — "+tag)
	}
	sort.Strings(assumedC)
	sort.Slice(res.funcs, func(i, j int) bool { return res.funcs[i]["function"].(string) < res.funcs[j]["function"].(string) })
	assumptions := append([]string{}, cfg.Assumptions...)
	assumptions = append(assumptions,
		"machine integers treated as mathematical integers (arith math) except explicit conversions, which wrap",
		"absence of runtime panics is assumed in functions not marked safe",
		"functions are verified sequentially; interference by other goroutines is modelled only at monitor Lock() (protected fields havocked, invariant assumed)",
		"goroutine bodies started with go are not part of the caller's VC",
		"append is modelled as always reallocating (no aliasing between the result and the original backing array)",
		"a typed nil pointer stored in an interface is treated as a nil interface",
		"external library functions without a contract modify rqlite objects only through pointer/interface/func arguments (otherwise only non-rqlite heap is havocked); raft, database/sql, net/http, sqlite3, bbolt calls havoc the whole heap",
		"fields of library objects and library package variables are outside assigns frames: not frame-checked in a function with an assigns clause, and havocked by its callers at the call",
		"calls through function values have no ghost-state effect",
		"termination is not proved")
	for _, n := range cfg.NotDecided {
		assumptions = append(assumptions, "NOT DECIDED: "+n)
	}
	for _, n := range cfg.Bounded {
		assumptions = append(assumptions, "BOUNDED (not counted as proved): "+n)
	}
	ev := map[string]any{
		"property_id": id,
		"tier":        tier,
		"seed":        seed,
		"level":       "proof",
		"coverage": map[string]any{
			"obligations":            nObl,
			"discharged":             nDis,
			"checker_cmd":            fmt.Sprintf("bin/govc check %s --tier %s  (VC generation over go/ast+go/types of /repo with -tags verif; solvers raced: z3-new 5.1.0, cvc5 1.0.3, z3 4.8.12)", id, tier),
			"trusted_base":           cfg.TrustedBase,
			"functions_under_contract": res.funcs,
			"obligation_results":     reports,
			"discharged_by_solver":   bySolver,
			"solver_time_s":          round2(solverTime),
			"contracts_used_at_call_sites": assumedC,
			"opaque_callees":         opaque,
			"abstractions":           notes,
			"vacuity_covers_unreachable": vacuous,
			"samples":                samples,
			"contract_files":         relFiles(prog.DB.Files),
			"machinery_errors":       res.machineErr,
			"known_findings_reported": knownHit,
			"obligations_decided_elsewhere": elsewhere,
		},
		"assumptions": assumptions,
		"wall_s":      round2(time.Since(t0).Seconds()),
		"violations":  violations,
	}
	os.MkdirAll(filepath.Join(outDir(), "evidence"), 0o755)
	b, _ := json.MarshalIndent(ev, "", " ")
	os.WriteFile(filepath.Join(outDir(), "evidence", id+".json"), b, 0o644)
	fmt.Printf("govc: %s tier=%s obligations=%d discharged=%d violations=%d wall=%.1fs\n", id, tier, nObl, nDis, violations, time.Since(t0).Seconds())
	if len(res.machineErr) > 0 {
		for _, e := range res.machineErr {
			fmt.Fprintln(os.Stderr, "govc: machinery error:", e)
		}
		if violations > 0 {
			return 1
		}
		return 2
	}
	if violations > 0 {
		return 1
	}
	return 0
}

func relFiles(fs []string) []string {
	var out []string
	for _, f := range fs {
		out = append(out, f)
	}
	return out
}

func round2(f float64) float64 { return float64(int(f*100+0.5)) / 100 }

func trunc(s string, n int) string {
	if len(s) > n {
		return s[:n] + "…"
	}
	return s
}

var nonAlnum = regexp.MustCompile(`[^A-Za-z0-9_.\-]+`)

// Registered replay drivers: in-package Go tests (kept in /verif/replay/drivers) that exercise the
// real code on the witness class of an obligation; a failing test is a failing input.
type replayDriver struct {
	Obligation string `json:"obligation_regex"`
	Pkg        string `json:"pkg"`
	File       string `json:"test_file"`
	Run        string `json:"run"`
}

func runReplayDriver(vd, name string, model string) (found bool, reproduced bool, output string, drv replayDriver) {
	var drivers []replayDriver
	if loadJSON(filepath.Join(vd, "replay", "registry.json"), &drivers) != nil {
		return
	}
	for _, d := range drivers {
		re, err := regexp.Compile(d.Obligation)
		if err != nil || !re.MatchString(name) {
			continue
		}
		found = true
		drv = d
		tmp, err := os.MkdirTemp("", "govc-replay")
		if err != nil {
			return
		}
		defer os.RemoveAll(tmp)
		src := filepath.Join(vd, d.File)
		target := filepath.Join(repoDir(), strings.TrimPrefix(d.Pkg, "./"), "zz_verif_replay_test.go")
		repl := map[string]string{target: src}
		// when the check itself runs on an overlay (self-test), replay on the same overlay
		if ov := os.Getenv("GOVC_OVERLAY"); ov != "" {
			for _, kv := range strings.Split(ov, ",") {
				if i := strings.Index(kv, "="); i > 0 {
					repl[kv[:i]] = kv[i+1:]
				}
			}
		}
		ovb, _ := json.Marshal(map[string]any{"Replace": repl})
		ovf := filepath.Join(tmp, "overlay.json")
		os.WriteFile(ovf, ovb, 0o644)
		os.WriteFile(filepath.Join(tmp, "model.smt2"), []byte(model), 0o644)
		cmd := exec.Command("go", "test", "-overlay", ovf, "-vet=off", "-count=1", "-timeout", "120s", "-run", d.Run, d.Pkg)
		cmd.Dir = repoDir()
		cmd.Env = append(os.Environ(), "GOVC_MODEL="+filepath.Join(tmp, "model.smt2"), "GOVC_OBLIGATION="+name)
		b, err := cmd.CombinedOutput()
		output = trunc(string(b), 6000)
		reproduced = err != nil && strings.Contains(string(b), "--- FAIL")
		return
	}
	return
}

func writeReplay(vd, id, name string, o *Obligation, reason string) (string, bool) {
	reproduced := false
	dir := filepath.Join(vd, "replays", id)
	os.MkdirAll(dir, 0o755)
	fn := nonAlnum.ReplaceAllString(shortKey(name), "_")
	if len(fn) > 150 {
		fn = fn[:150]
	}
	path := filepath.Join(dir, fn+".json")
	rec := map[string]any{"property": id, "obligation": name, "reason": reason}
	if o != nil {
		rec["kind"] = o.Kind
		rec["source"] = o.Pos
		rec["clause"] = o.Src
		rec["solver"] = o.Result.Solver
		rec["solver_status"] = o.Result.Status
		rec["solver_output"] = trunc(o.Result.Raw, 4000)
		rec["model"] = trunc(o.Result.Model, 20000)
		rec["goal"] = trunc(o.Goal.S, 4000)
		qf := filepath.Join(dir, fn+".smt2")
		os.WriteFile(qf, []byte(o.Query()), 0o644)
		rec["query_file"] = qf
		rec["replayed"] = false
		rec["replay_note"] = "no registered replay driver for this obligation: no-failing-input-found"
	}
	model := ""
	if o != nil {
		model = o.Result.Model
	}
	if found, rep, outp, drv := runReplayDriver(verifDir(), name, model); found {
		rec["replayed"] = true
		rec["replay_driver"] = drv.File + " -run " + drv.Run
		rec["replay_output"] = outp
		rec["replay_reproduced_on_real_code"] = rep
		if rep {
			rec["replay_note"] = "the registered driver's witness fails on the real code (see replay_output)"
			reproduced = true
		} else {
			rec["replay_note"] = "registered driver ran but did not reproduce a failure: no-failing-input-found"
		}
	}
	b, _ := json.MarshalIndent(rec, "", " ")
	os.WriteFile(path, b, 0o644)
	return path, reproduced
}

// runSolversCover: satisfiability probe for vacuity; sat or unknown are fine, unsat is vacuous.
func runSolversCover(q string, timeoutS int) SolverResult {
	q = strings.Replace(q, "(get-model)\n", "", 1)
	return runSolvers(q, timeoutS, false)
}
