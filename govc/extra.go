package main

// Extra obligation generators: regular-language inclusion between a specified language and
// the language of regexp literals extracted from the real code.

import (
	"fmt"
	"go/ast"
	"go/constant"
	"go/token"
	"os"
	"path/filepath"
	"regexp/syntax"
	"sort"
	"strings"
	"unicode/utf8"
)

func runExtra(p *Prog, spec string) ([]*Obligation, []string) {
	if strings.HasPrefix(spec, "regexincl:") {
		return regexInclusion(p, filepath.Join(verifDir(), "specs", strings.TrimPrefix(spec, "regexincl:")))
	}
	if strings.HasPrefix(spec, "substrincl:") {
		return substrInclusion(p, filepath.Join(verifDir(), "specs", strings.TrimPrefix(spec, "substrincl:")))
	}
	return nil, []string{"unknown extra engine " + spec}
}

func smtChar(r rune) string {
	if r == '"' {
		return `""""`
	}
	if r < 0x20 || r > 0x7e || r == '\\' {
		return fmt.Sprintf(`"\u{%x}"`, r)
	}
	return `"` + string(r) + `"`
}

func smtStr(s string) string {
	var b strings.Builder
	b.WriteByte('"')
	for _, r := range s {
		switch {
		case r == '"':
			b.WriteString(`""`)
		case r < 0x20 || r > 0x7e || r == '\\':
			fmt.Fprintf(&b, `\u{%x}`, r)
		default:
			b.WriteRune(r)
		}
	}
	b.WriteByte('"')
	return b.String()
}

// reToSMT converts a parsed Go regexp (anchors handled by the caller) to an SMT-LIB RegLan term.
func reToSMT(re *syntax.Regexp) (string, error) {
	switch re.Op {
	case syntax.OpEmptyMatch:
		return `(str.to_re "")`, nil
	case syntax.OpLiteral:
		var parts []string
		for _, r := range re.Rune {
			if re.Flags&syntax.FoldCase != 0 {
				set := map[rune]bool{r: true}
				for f := simpleFold(r); f != r; f = simpleFold(f) {
					set[f] = true
				}
				var alts []string
				var rs []rune
				for x := range set {
					rs = append(rs, x)
				}
				sort.Slice(rs, func(i, j int) bool { return rs[i] < rs[j] })
				for _, x := range rs {
					alts = append(alts, "(str.to_re "+smtChar(x)+")")
				}
				if len(alts) == 1 {
					parts = append(parts, alts[0])
				} else {
					parts = append(parts, "(re.union "+strings.Join(alts, " ")+")")
				}
			} else {
				parts = append(parts, "(str.to_re "+smtChar(r)+")")
			}
		}
		if len(parts) == 1 {
			return parts[0], nil
		}
		return "(re.++ " + strings.Join(parts, " ") + ")", nil
	case syntax.OpCharClass:
		var alts []string
		for i := 0; i+1 < len(re.Rune); i += 2 {
			lo, hi := re.Rune[i], re.Rune[i+1]
			if hi > 0x2ffff {
				hi = 0x2ffff // SMT-LIB strings: code points up to 0x2FFFF
			}
			if lo > hi {
				continue
			}
			if lo == hi {
				alts = append(alts, "(str.to_re "+smtChar(lo)+")")
			} else {
				alts = append(alts, "(re.range "+smtChar(lo)+" "+smtChar(hi)+")")
			}
		}
		if len(alts) == 0 {
			return "re.none", nil
		}
		if len(alts) == 1 {
			return alts[0], nil
		}
		return "(re.union " + strings.Join(alts, " ") + ")", nil
	case syntax.OpAnyChar:
		return "re.allchar", nil
	case syntax.OpAnyCharNotNL:
		return `(re.diff re.allchar (str.to_re "\u{a}"))`, nil
	case syntax.OpCapture:
		return reToSMT(re.Sub[0])
	case syntax.OpStar, syntax.OpPlus, syntax.OpQuest:
		s, err := reToSMT(re.Sub[0])
		if err != nil {
			return "", err
		}
		op := map[syntax.Op]string{syntax.OpStar: "re.*", syntax.OpPlus: "re.+", syntax.OpQuest: "re.opt"}[re.Op]
		return "(" + op + " " + s + ")", nil
	case syntax.OpRepeat:
		s, err := reToSMT(re.Sub[0])
		if err != nil {
			return "", err
		}
		if re.Max < 0 {
			return fmt.Sprintf("(re.++ ((_ re.^ %d) %s) (re.* %s))", re.Min, s, s), nil
		}
		return fmt.Sprintf("((_ re.loop %d %d) %s)", re.Min, re.Max, s), nil
	case syntax.OpConcat, syntax.OpAlternate:
		var parts []string
		for _, sub := range re.Sub {
			s, err := reToSMT(sub)
			if err != nil {
				return "", err
			}
			parts = append(parts, s)
		}
		op := "re.++"
		if re.Op == syntax.OpAlternate {
			op = "re.union"
		}
		if len(parts) == 1 {
			return parts[0], nil
		}
		return "(" + op + " " + strings.Join(parts, " ") + ")", nil
	}
	return "", fmt.Errorf("unsupported regexp operator %v in %q", re.Op, re.String())
}

func simpleFold(r rune) rune {
	// ASCII letters only need the classic fold; others via unicode.SimpleFold semantics
	if r >= 'a' && r <= 'z' {
		return r - 32
	}
	if r >= 'A' && r <= 'Z' {
		return r + 32
	}
	return r
}

// goRegexLanguage: the set of strings a Go regexp MatchString accepts, as RegLan.
// fullMatch: the pattern must describe the whole string (used for specification languages).
func goRegexLanguage(pat string, fullMatch bool) (string, error) {
	re, err := syntax.Parse(pat, syntax.Perl)
	if err != nil {
		return "", err
	}
	re = re.Simplify()
	beginAnchored, endAnchored := false, false
	if re.Op == syntax.OpConcat && len(re.Sub) > 0 {
		if re.Sub[0].Op == syntax.OpBeginText || re.Sub[0].Op == syntax.OpBeginLine {
			beginAnchored = true
			re.Sub = re.Sub[1:]
		}
		if n := len(re.Sub); n > 0 && (re.Sub[n-1].Op == syntax.OpEndText || re.Sub[n-1].Op == syntax.OpEndLine) {
			endAnchored = true
			re.Sub = re.Sub[:n-1]
		}
		if len(re.Sub) == 0 {
			re = &syntax.Regexp{Op: syntax.OpEmptyMatch}
		}
	}
	body, err := reToSMT(re)
	if err != nil {
		return "", err
	}
	if fullMatch {
		return body, nil
	}
	out := body
	if !beginAnchored {
		out = "(re.++ re.all " + out + ")"
	}
	if !endAnchored {
		out = "(re.++ " + out + " re.all)"
	}
	return out, nil
}

// regexInclusion reads a .lang file:
//
//	guard <pkgpath> <MapVar>            map[string]*regexp.Regexp literal in the real code
//	lang <name> = <go regexp>            specification language (full match)
//
// and emits one obligation per lang: L(lang) ⊆ L(guard).
func regexInclusion(p *Prog, file string) ([]*Obligation, []string) {
	b, err := os.ReadFile(file)
	if err != nil {
		return nil, []string{err.Error()}
	}
	var errs []string
	var guardPats []string
	guardName := ""
	type lang struct{ name, pat string }
	var langs []lang
	for _, line := range strings.Split(string(b), "\n") {
		line = strings.TrimRight(line, "\r")
		t := strings.TrimSpace(line)
		if t == "" || strings.HasPrefix(t, "#") {
			continue
		}
		switch {
		case strings.HasPrefix(t, "guard "):
			f := strings.Fields(t)
			if len(f) != 3 {
				errs = append(errs, "bad guard line: "+t)
				continue
			}
			pats, err := extractRegexMap(p, normKey(f[1]), f[2])
			if err != nil {
				errs = append(errs, err.Error())
				continue
			}
			guardPats = pats
			guardName = f[1] + "." + f[2]
		case strings.HasPrefix(t, "lang "):
			r := strings.TrimPrefix(t, "lang ")
			i := strings.Index(r, "=")
			if i < 0 {
				errs = append(errs, "bad lang line: "+t)
				continue
			}
			langs = append(langs, lang{strings.TrimSpace(r[:i]), strings.TrimSpace(r[i+1:])})
		default:
			errs = append(errs, "unknown line in "+file+": "+t)
		}
	}
	if len(guardPats) == 0 {
		errs = append(errs, "no guard patterns extracted for "+file)
		return nil, errs
	}
	var gl []string
	for _, gp := range guardPats {
		s, err := goRegexLanguage(gp, false)
		if err != nil {
			errs = append(errs, "guard pattern "+gp+": "+err.Error())
			return nil, errs
		}
		gl = append(gl, s)
	}
	guard := gl[0]
	if len(gl) > 1 {
		guard = "(re.union " + strings.Join(gl, " ") + ")"
	}
	var obls []*Obligation
	for _, l := range langs {
		ls, err := goRegexLanguage(l.pat, true)
		if err != nil {
			errs = append(errs, "lang "+l.name+": "+err.Error())
			continue
		}
		q := "(set-option :produce-models true)\n(set-logic ALL)\n(declare-const x String)\n" +
			"(assert (str.in_re x " + ls + "))\n(assert (not (str.in_re x " + guard + ")))\n(check-sat)\n(get-model)\n"
		obls = append(obls, &Obligation{
			Name: guardName + "#incl[" + l.name + "]", Kind: "language-inclusion", Src: "L(" + l.pat + ") ⊆ L(" + strings.Join(guardPats, " | ") + ")",
			RawQuery: q, PC: TTrue, Goal: Term{"(str.in_re x guard)", SBool}, Pos: file,
		})
	}
	return obls, errs
}

// extractRegexMap returns the regexp literals of a package-level map literal
// map[string]*regexp.Regexp{ k: regexp.MustCompile(`...`), ... } in the loaded real code.
func extractRegexMap(p *Prog, pkgPath, name string) ([]string, error) {
	pk := p.Pkgs[pkgPath]
	if pk == nil {
		return nil, fmt.Errorf("package %s not loaded", pkgPath)
	}
	var pats []string
	for _, f := range pk.Syntax {
		for _, d := range f.Decls {
			gd, ok := d.(*ast.GenDecl)
			if !ok || gd.Tok != token.VAR {
				continue
			}
			for _, sp := range gd.Specs {
				vs := sp.(*ast.ValueSpec)
				for i, nm := range vs.Names {
					if nm.Name != name || i >= len(vs.Values) {
						continue
					}
					ast.Inspect(vs.Values[i], func(n ast.Node) bool {
						call, ok := n.(*ast.CallExpr)
						if !ok || len(call.Args) != 1 {
							return true
						}
						if fn := staticCallee(pk.TypesInfo, call); fn != nil && fn.Pkg() != nil && fn.Pkg().Path() == "regexp" && (fn.Name() == "MustCompile" || fn.Name() == "Compile") {
							if tv, ok := pk.TypesInfo.Types[call.Args[0]]; ok && tv.Value != nil && tv.Value.Kind() == constant.String {
								pats = append(pats, constant.StringVal(tv.Value))
							}
						}
						return true
					})
				}
			}
		}
	}
	if len(pats) == 0 {
		return nil, fmt.Errorf("no regexp literals found in %s.%s", pkgPath, name)
	}
	sort.Strings(pats)
	_ = utf8.RuneError
	return pats, nil
}
