package main

// Extra obligation generators (language inclusion, SMT lemma files).

func runExtra(p *Prog, spec string) ([]*Obligation, []string) {
	return nil, []string{"unknown extra engine " + spec}
}
