package main

// SMT term layer and solver race.

import (
	"bytes"
	"context"
	"crypto/sha256"
	"encoding/hex"
	"fmt"
	"os"
	"os/exec"
	"path/filepath"
	"sort"
	"strings"
	"sync"
	"time"
)

// Term is an SMT-LIB term with its sort.
type Term struct {
	S    string
	Sort string
}

const (
	SInt  = "Int"
	SBool = "Bool"
	SStr  = "String"
	SSlc  = "Slc"
	SF64  = "F64"
)

func arrSort(k, v string) string { return "(Array " + k + " " + v + ")" }

func arrParts(s string) (k, v string, ok bool) {
	if !strings.HasPrefix(s, "(Array ") {
		return "", "", false
	}
	body := s[len("(Array ") : len(s)-1]
	depth := 0
	for i, c := range body {
		switch c {
		case '(':
			depth++
		case ')':
			depth--
		case ' ':
			if depth == 0 {
				return body[:i], body[i+1:], true
			}
		}
	}
	return "", "", false
}

func sortKey(s string) string {
	r := strings.NewReplacer("(", "", ")", "", " ", "_")
	return r.Replace(s)
}

var (
	TTrue  = Term{"true", SBool}
	TFalse = Term{"false", SBool}
)

func IntLit(n int64) Term {
	if n < 0 {
		return Term{fmt.Sprintf("(- %d)", -n), SInt}
	}
	return Term{fmt.Sprintf("%d", n), SInt}
}

func BigLit(s string) Term {
	if strings.HasPrefix(s, "-") {
		return Term{"(- " + s[1:] + ")", SInt}
	}
	return Term{s, SInt}
}

func StrLit(s string) Term {
	var b strings.Builder
	b.WriteByte('"')
	for _, r := range s {
		switch {
		case r == '"':
			b.WriteString(`""`)
		case r < 0x20 || r > 0x7e || r == '\\':
			fmt.Fprintf(&b, `\u{%x}`, r)
		default:
			b.WriteRune(r)
		}
	}
	b.WriteByte('"')
	return Term{b.String(), SStr}
}

func app(sort, op string, args ...Term) Term {
	var b strings.Builder
	b.WriteByte('(')
	b.WriteString(op)
	for _, a := range args {
		b.WriteByte(' ')
		b.WriteString(a.S)
	}
	b.WriteByte(')')
	return Term{b.String(), sort}
}

func And(ts ...Term) Term {
	var xs []Term
	for _, t := range ts {
		if t.S == "true" {
			continue
		}
		if t.S == "false" {
			return TFalse
		}
		xs = append(xs, t)
	}
	switch len(xs) {
	case 0:
		return TTrue
	case 1:
		return xs[0]
	}
	return app(SBool, "and", xs...)
}

func Or(ts ...Term) Term {
	var xs []Term
	for _, t := range ts {
		if t.S == "false" {
			continue
		}
		if t.S == "true" {
			return TTrue
		}
		xs = append(xs, t)
	}
	switch len(xs) {
	case 0:
		return TFalse
	case 1:
		return xs[0]
	}
	return app(SBool, "or", xs...)
}

func Not(t Term) Term {
	switch t.S {
	case "true":
		return TFalse
	case "false":
		return TTrue
	}
	if strings.HasPrefix(t.S, "(not ") {
		return Term{t.S[5 : len(t.S)-1], SBool}
	}
	return app(SBool, "not", t)
}

func Implies(a, b Term) Term {
	if a.S == "true" {
		return b
	}
	if a.S == "false" || b.S == "true" {
		return TTrue
	}
	return app(SBool, "=>", a, b)
}

func Eq(a, b Term) Term {
	if a.S == b.S {
		return TTrue
	}
	return app(SBool, "=", a, b)
}

func Ite(c, a, b Term) Term {
	if c.S == "true" {
		return a
	}
	if c.S == "false" {
		return b
	}
	if a.S == b.S {
		return a
	}
	return app(a.Sort, "ite", c, a, b)
}

func Select(arr, idx Term) Term {
	_, v, ok := arrParts(arr.Sort)
	if !ok {
		panic("select on non-array sort " + arr.Sort + " term " + arr.S)
	}
	return app(v, "select", arr, idx)
}

func Store(arr, idx, val Term) Term {
	return app(arr.Sort, "store", arr, idx, val)
}

// ---------------------------------------------------------------------------
// Solver interface

type SolverResult struct {
	Status string // unsat | sat | unknown | timeout | error
	Solver string
	Model  string
	Secs   float64
	Raw    string
}

type solverSpec struct {
	name string
	argv func(file string, timeoutS int) []string
}

var solvers = []solverSpec{
	{"z3-new", func(f string, t int) []string { return []string{"z3-new", fmt.Sprintf("-T:%d", t), f} }},
	{"cvc5", func(f string, t int) []string {
		return []string{"cvc5", "--incremental", fmt.Sprintf("--tlimit=%d", t*1000), f}
	}},
	{"z3", func(f string, t int) []string { return []string{"z3", fmt.Sprintf("-T:%d", t), f} }},
}

var cacheDir = "/verif/.cache"
var cacheMu sync.Mutex
var noCache = os.Getenv("GOVC_NOCACHE") != ""

func queryHash(q string) string {
	h := sha256.Sum256([]byte(q))
	return hex.EncodeToString(h[:16])
}

// runSolvers races the solvers on the query. If needTwo is set, it requires two
// different solvers to answer unsat before reporting unsat (thorough tier); the
// names are joined with '+'.
func runSolvers(query string, timeoutS int, needTwo bool) SolverResult {
	h := queryHash(query)
	tag := "1"
	if needTwo {
		tag = "2"
	}
	cfile := filepath.Join(cacheDir, h+"."+tag)
	if !noCache {
		if b, err := os.ReadFile(cfile); err == nil {
			parts := strings.SplitN(string(b), "\n", 3)
			if len(parts) >= 2 && parts[0] == "unsat" {
				return SolverResult{Status: "unsat", Solver: parts[1] + " (cached)"}
			}
		}
	}
	os.MkdirAll(cacheDir, 0o755)
	qf := filepath.Join(cacheDir, "q_"+h+".smt2")
	os.WriteFile(qf, []byte(query), 0o644)
	defer os.Remove(qf)

	ctx, cancel := context.WithCancel(context.Background())
	defer cancel()
	type res struct {
		SolverResult
	}
	ch := make(chan SolverResult, len(solvers))
	t0 := time.Now()
	for _, sv := range solvers {
		sv := sv
		go func() {
			argv := sv.argv(qf, timeoutS)
			c, cc := context.WithTimeout(ctx, time.Duration(timeoutS+2)*time.Second)
			defer cc()
			cmd := exec.CommandContext(c, argv[0], argv[1:]...)
			var out bytes.Buffer
			cmd.Stdout = &out
			cmd.Stderr = &out
			cmd.Run()
			s := out.String()
			first := strings.TrimSpace(strings.SplitN(s, "\n", 2)[0])
			r := SolverResult{Solver: sv.name, Secs: time.Since(t0).Seconds(), Raw: s}
			switch {
			case first == "unsat":
				r.Status = "unsat"
			case first == "sat":
				r.Status = "sat"
				if i := strings.Index(s, "\n"); i >= 0 {
					r.Model = s[i+1:]
				}
			case first == "unknown":
				r.Status = "unknown"
			case strings.Contains(first, "timeout") || c.Err() != nil:
				r.Status = "timeout"
			default:
				r.Status = "error"
			}
			ch <- r
		}()
	}
	var unsats []string
	var best SolverResult
	best.Status = "unknown"
	var errs []string
	for range solvers {
		r := <-ch
		switch r.Status {
		case "unsat":
			unsats = append(unsats, r.Solver)
			if !needTwo || len(unsats) >= 2 {
				sort.Strings(unsats)
				out := SolverResult{Status: "unsat", Solver: strings.Join(unsats, "+"), Secs: r.Secs}
				if !noCache {
					os.WriteFile(cfile, []byte("unsat\n"+out.Solver+"\n"), 0o644)
				}
				return out
			}
		case "sat":
			if len(unsats) > 0 {
				// disagreement: report as error
				return SolverResult{Status: "error", Solver: r.Solver, Raw: "solver disagreement: sat by " + r.Solver + ", unsat by " + strings.Join(unsats, ",")}
			}
			return r
		case "error":
			errs = append(errs, r.Solver+": "+firstLines(r.Raw, 3))
		default:
			if best.Status != "sat" {
				best = r
			}
		}
	}
	if len(unsats) == 1 {
		// thorough tier wanted two, only one solver decided it; accept with note
		out := SolverResult{Status: "unsat", Solver: unsats[0] + " (single)", Secs: time.Since(t0).Seconds()}
		return out
	}
	if len(errs) == len(solvers) {
		return SolverResult{Status: "error", Raw: strings.Join(errs, "\n")}
	}
	best.Raw = best.Raw + "\n" + strings.Join(errs, "\n")
	return best
}

func firstLines(s string, n int) string {
	ls := strings.Split(s, "\n")
	if len(ls) > n {
		ls = ls[:n]
	}
	return strings.Join(ls, " | ")
}
