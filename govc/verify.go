package main

// Per-function verification: entry state, passes, postconditions.

import (
	"os"
	"fmt"
	"go/ast"
	"go/token"
	"go/types"
	"sort"
)

func newVC(p *Prog, fi *FuncInfo) *VC {
	return &VC{prog: p, fn: fi, contract: p.DB.Funcs[fi.Key], universe: map[string]string{}, notes: map[string]int{}, opaque: map[string]int{}, assumedC: map[string]int{}}
}

func (vc *VC) resetPass() {
	vc.cmds = nil
	vc.ufs = map[string]bool{}
	vc.nfresh = 0
	vc.obls = nil
	vc.oblCount = map[string]int{}
	vc.callSeq = map[string]int{}
	vc.sentinels = nil
	vc.frames = nil
	vc.escapes = nil
	vc.monitorEntries = map[string]*State{}
	vc.notes = map[string]int{}
	vc.opaque = map[string]int{}
	vc.assumedC = map[string]int{}
	vc.errs = nil
	vc.preEval = map[ast.Expr]Term{}
	vc.lastLock = nil
	curVC = vc
	vc.emit("(declare-const alloc$base Int)")
	vc.emit("(assert (> alloc$base 0))")
}

// VerifyFunc generates the obligations of one function under contract.
func (p *Prog) VerifyFunc(key string) (*VC, error) {
	key = normKey(key)
	fi := p.Funcs[key]
	if fi == nil {
		return nil, fmt.Errorf("function %s not found in loaded packages", key)
	}
	vc := newVC(p, fi)
	if vc.contract == nil {
		return nil, fmt.Errorf("function %s has no contract", key)
	}
	vc.safe = vc.contract.Safe
	vc.privSlices = privateSlices(fi.Pkg.TypesInfo, fi.Decl.Body)
	vc.privStructs = privateStructs(fi.Pkg.TypesInfo, fi.Decl.Type, fi.Decl.Body)
	vc.privPtrs = privatePointers(fi.Pkg.TypesInfo, fi.Decl.Body)
	prev := -1
	for i := 0; i < 5 && len(vc.universe) != prev; i++ {
		prev = len(vc.universe)
		vc.discover = true
		vc.resetPass()
		vc.runPass()
	}
	vc.discover = false
	vc.resetPass()
	vc.runPass()
	// vacuity guard: every anchored assertion that matched a program point must have produced an
	// obligation (otherwise the hook for that kind of anchor did not run)
	for _, a := range vc.contract.Asserts {
		if a.Assume || a.Optional || (len(a.Anchor) > 0 && a.Anchor[len(a.Anchor)-1] == '*') {
			continue
		}
		want := fmt.Sprintf("%s#assert@%s[%s]", fi.Key, a.Anchor, a.Var)
		found := false
		for _, o := range vc.obls {
			if len(o.Name) >= len(want) && o.Name[:len(want)] == want {
				found = true
				break
			}
		}
		if !found {
			vc.fail("anchored assertion @%s [%s] produced no obligation (unreached program point?)", a.Anchor, a.Var)
		}
	}
	if len(vc.errs) > 0 {
		seen := map[string]bool{}
		var u []string
		for _, e := range vc.errs {
			if !seen[e] {
				seen[e] = true
				u = append(u, e)
			}
		}
		vc.errs = u
	}
	return vc, nil
}

func (vc *VC) runPass() {
	fi := vc.fn
	info := fi.Pkg.TypesInfo
	fr := &callFrame{info: info, pkg: fi.Pkg.Types, fnName: fi.Key, contract: vc.contract, top: true, ftype: fi.Decl.Type}
	vc.frames = []*callFrame{fr}
	vc.prepareFrame(fr, fi.Decl.Body, true)
	vc.bindAnchors(fi, vc.contract)
	st := &State{pc: TTrue, vars: map[types.Object]Term{}, heap: map[string]Term{}}
	for _, n := range vc.sortedUniverse() {
		switch {
		case n == "gl$$nalloc":
			st.heap[n] = IntLit(0)
		case n == "gl$$now":
			st.heap[n] = vc.initialNow()
		case len(n) > 9 && n[:9] == "gl$$held$":
			// whether the caller holds the monitor is unknown unless a precondition locked("mu")
			// says so (then the call sites are checked for it)
			st.heap[n] = vc.fresh(n, SBool)
		default:
			st.heap[n] = vc.fresh(n, vc.universe[n])
			if n == "ghost$chanClosed" {
				// channels that do not exist yet are not closed
				h := st.heap[n].S
				vc.emit(fmt.Sprintf("(assert (forall ((r Int)) (! (=> (> r alloc$base) (not (select %s r))) :pattern ((select %s r)))))", h, h))
			}
			if noRefAxioms {
				continue
			}
			// (reads outside quantifiers also get the ground fact from assumeAllocated; these
			// axioms cover reads under quantifiers in invariants)
			if vc.universe[n] == arrSort(SInt, SSlc) {
				// slices stored in objects on entry were allocated before the call
				h := st.heap[n].S
				vc.emit(fmt.Sprintf("(assert (forall ((r Int)) (! (<= (sbase (select %s r)) alloc$base) :pattern ((select %s r)))))", h, h))
			}
			if heapRefLike[n] && vc.universe[n] == arrSort(SInt, SInt) {
				h := st.heap[n].S
				vc.emit(fmt.Sprintf("(assert (forall ((r Int)) (! (<= (select %s r) alloc$base) :pattern ((select %s r)))))", h, h))
			}
		}
	}
	// receiver and parameters
	bindParam := func(id *ast.Ident) {
		o := info.Defs[id]
		if o == nil || id.Name == "_" {
			return
		}
		v := vc.fresh(id.Name, sortOfType(o.Type()))
		st.assume(vc.rangeFact(o.Type(), v))
		if v.Sort == SInt && !isBasicInt(o.Type()) && !namedIs(o.Type(), "time", "Time") && !isErrorType(o.Type()) {
			st.assume(app(SBool, "<=", v, Term{"alloc$base", SInt}))
		}
		if v.Sort == SSlc {
			st.assume(app(SBool, "<=", sbase(v), Term{"alloc$base", SInt}))
		}
		vc.declareLocal(st, o, v)
	}
	if fi.Lit != nil && fi.Outer != nil {
		// closure procedure: the closures of the enclosing function that this literal may call are
		// known (they are inlined when called); every other variable of the enclosing function is
		// captured by reference and holds an arbitrary value of its type on entry
		tmp := &callFrame{info: info}
		vc.prepareFrame(tmp, fi.Outer.Body, false)
		for o, fl := range tmp.closures {
			if fl != fi.Lit {
				fr.closures[o] = fl
			}
		}
		declOuter := func(id *ast.Ident) {
			o, _ := info.Defs[id].(*types.Var)
			if o == nil || o.IsField() || id.Name == "_" {
				return
			}
			if id.Pos() >= fi.Lit.Pos() && id.Pos() < fi.Lit.End() {
				return // the literal's own parameters and locals
			}
			if _, isClosure := fr.closures[o]; isClosure {
				return
			}
			if _, done := st.vars[o]; done {
				return
			}
			v := vc.fresh(id.Name, sortOfType(o.Type()))
			st.assume(vc.rangeFact(o.Type(), v))
			if v.Sort == SInt && !isBasicInt(o.Type()) && !namedIs(o.Type(), "time", "Time") && !isErrorType(o.Type()) {
				st.assume(app(SBool, "<=", v, Term{"alloc$base", SInt}))
			}
			if v.Sort == SSlc {
				st.assume(app(SBool, "<=", sbase(v), Term{"alloc$base", SInt}))
			}
			st.vars[o] = v
		}
		ast.Inspect(fi.Outer, func(n ast.Node) bool {
			if id, ok := n.(*ast.Ident); ok {
				declOuter(id)
			}
			return true
		})
	}
	if fi.Decl.Recv != nil {
		for _, f := range fi.Decl.Recv.List {
			for _, nm := range f.Names {
				bindParam(nm)
				fr.recv = info.Defs[nm]
				// methods are invoked on non-nil receivers unless the contract says otherwise
			}
		}
	}
	for _, f := range fi.Decl.Type.Params.List {
		for _, nm := range f.Names {
			bindParam(nm)
		}
	}
	vc.bindResults(st, fr, fi.Decl.Type, info)
	// ghost locals
	for _, g := range vc.contract.GhostVars {
		if _, clash := vc.prog.DB.Ghosts[g.Name]; clash {
			vc.fail("function ghost %s has the name of a global ghost variable (updates would go to the global one): rename it", g.Name)
		}
		n := "gl$" + g.Name
		if g.Init != nil {
			env := vc.topEnv(st, st, fi.Decl.Body.Pos())
			vc.heapSet(st, n, vc.specEval(env, g.Init).T)
		} else {
			vc.heapSet(st, n, vc.fresh(n, specSort(g.Type)))
		}
	}
	bodyPos := fi.Decl.Body.Lbrace + 1
	for _, r := range vc.contract.Requires {
		st.assume(vc.nameTerm("req", vc.specClause(st, st, r, nil, bodyPos)))
	}
	fr.entry = st.clone()
	vc.cover(st, fi.Key+"#cover[requires]", fi.Decl.Pos())
	end := vc.execBlock(st.clone(), fi.Decl.Body.List)
	if end != nil {
		vc.finishFrame(end)
	}
	final := vc.merge(fr.exits)
	if final == nil {
		vc.note("function has no normal exit")
		return
	}
	// exit-anchored ghost updates
	for _, gu := range vc.contract.Updates {
		if gu.Anchor == "exit" {
			env := vc.topEnv(final, fr.entry, fi.Decl.Body.Rbrace)
			v := vc.specEval(env, gu.Expr)
			vc.setGhost(final, gu.Var, v.T)
		}
	}
	if len(vc.contract.Ensures) > 0 {
		vc.cover(final, fi.Key+"#cover[exit]", fi.Decl.Body.Rbrace)
	}
	// In a postcondition a parameter denotes the value the caller passed (that is what a caller
	// assumes at the call site), also when the body re-assigns the parameter variable.
	ensState := final
	if fi.Decl.Type.Params != nil {
		for _, f := range fi.Decl.Type.Params.List {
			for _, id := range f.Names {
				o := fr.info.Defs[id]
				if o == nil || vc.isBoxed(o) {
					continue
				}
				ev, ok1 := fr.entry.vars[o]
				fv, ok2 := final.vars[o]
				if ok1 && ok2 && ev.S != fv.S {
					if ensState == final {
						ensState = final.clone()
					}
					ensState.vars[o] = ev
				}
			}
		}
	}
	for _, e := range vc.contract.Ensures {
		vc.assertClause(ensState, fr.entry, e, fmt.Sprintf("%s#ensures[%s]", fi.Key, e.Label), "ensures", fi.Decl.Pos(), nil)
	}
	// ghost frame: global ghosts not listed in assigns must be unchanged
	declared := vc.prog.contractGhostAssigns(vc.contract)
	var gs []string
	for n := range vc.universe {
		if len(n) > 6 && n[:6] == "ghost$" {
			gs = append(gs, n)
		}
	}
	sort.Strings(gs)
	for _, n := range gs {
		g := n[6:]
		if declared[g] {
			continue
		}
		a, b := fr.entry.heap[n], final.heap[n]
		if a.S == b.S {
			continue
		}
		vc.assert(final, fmt.Sprintf("%s#frame[%s]", fi.Key, g), "frame", fi.Decl.Pos(), "ghost "+g+" unchanged (not in assigns)", Eq(a, b))
	}
	// heap frame: a contract with pure / noheap / an assigns clause without "*" promises that
	// no caller-visible heap location changes; callers rely on it, so it is checked here.
	c := vc.contract
	star := false
	for _, a := range c.Assigns {
		if a == "*" || a == "**" {
			star = true
		}
	}
	if c.Pure || c.NoHeap || (c.HasAssigns && !star) {
		for _, n := range vc.sortedUniverse() {
			if isGhostName(n) || len(n) > 6 && n[:6] == "const$" {
				continue
			}
			a, b := fr.entry.heap[n], final.heap[n]
			if a.S == b.S {
				continue
			}
			if !c.Pure && !c.NoHeap && len(n) > 2 && (n[:2] == "F$" || n[:2] == "G$") && !isRqlitePkg(heapPkg[n]) {
				// under an assigns clause the fields of library objects and library package
				// variables are outside the frame: every library call havocs them, and so does
				// every call of a function with an assigns clause (call.go, libFieldsPattern),
				// so no caller keeps a fact about them across such a call. A pure / noheap
				// contract keeps them at the call site and is checked for them here.
				continue
			}
			listed := false
			for _, as := range c.Assigns {
				if as != "" && len(n) > len(as) && n[len(n)-len(as)-1:] == "$"+as {
					listed = true
				}
				if as != "" && (n == as || len(n) > len(as) && n[:len(as)+1] == as+"$") {
					listed = true // family pattern: "Elems" covers Elems$Int, Elems$String, ...
				}
				if len(as) > 1 && (as[len(as)-1] == '.' || as[len(as)-1] == '$') && len(n) > len(as)+2 && n[2:2+len(as)] == as && n[:2] == "F$" {
					listed = true // package pattern: "snapshot.proto." covers every field of every type of that package
				}
			}
			if listed {
				continue
			}
			// locations of objects allocated inside the function are not caller-visible
			k, _, _ := arrParts(vc.universe[n])
			var goal Term
			if k == SInt {
				goal = Term{fmt.Sprintf("(forall ((r Int)) (=> (<= r alloc$base) (= (select %s r) (select %s r))))", a.S, b.S), SBool}
			} else {
				goal = Eq(a, b)
			}
			vc.assert(final, fmt.Sprintf("%s#frame[heap:%s]", fi.Key, n), "frame", fi.Decl.Pos(), "heap "+n+" unchanged for pre-existing objects", goal)
		}
	}
	_ = token.NoPos
}

// noRefAxioms (debugging aid, GOVC_NOREFAXIOMS=1): omit the quantified "entry references are
// already allocated" axioms so that solvers can produce models for failing obligations.
var noRefAxioms = os.Getenv("GOVC_NOREFAXIOMS") != ""
