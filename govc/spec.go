package main

// Spec expression language and contract file parser.

import (
	"fmt"
	"os"
	"regexp"
	"strings"
	"unicode"
)

type SExpr interface{}

type SIdent struct{ Name string }
type SLit struct {
	Kind string // int | string | char
	Val  string
}
type SBin struct {
	Op   string
	L, R SExpr
}
type SUn struct {
	Op string
	X  SExpr
}
type SSel struct {
	X    SExpr
	Name string
}
type SIndex struct{ X, I SExpr }
type SSlice struct{ X, Lo, Hi SExpr }
type SCall struct {
	Fun  SExpr
	Args []SExpr
}
type SVar struct{ Name, Type string }
type SQuant struct {
	Forall bool
	Vars   []SVar
	Body   SExpr
}

type tok struct {
	kind string // id num str op eof
	s    string
}

type lexer struct {
	toks []tok
	p    int
	src  string
}

var ops3 = []string{"<==>", "==>", "&&", "||", "==", "!=", "<=", ">=", "::", "<<", ">>", "&^"}

func lex(src string) (*lexer, error) {
	l := &lexer{src: src}
	i := 0
	for i < len(src) {
		c := src[i]
		switch {
		case c == ' ' || c == '\t' || c == '\n' || c == '\r':
			i++
		case unicode.IsLetter(rune(c)) || c == '_':
			j := i
			for j < len(src) && (unicode.IsLetter(rune(src[j])) || unicode.IsDigit(rune(src[j])) || src[j] == '_' || src[j] == '$') {
				j++
			}
			l.toks = append(l.toks, tok{"id", src[i:j]})
			i = j
		case c >= '0' && c <= '9':
			j := i
			for j < len(src) && (unicode.IsDigit(rune(src[j])) || src[j] == 'x' || src[j] == '_' || (src[j] >= 'a' && src[j] <= 'f') || (src[j] >= 'A' && src[j] <= 'F')) {
				j++
			}
			l.toks = append(l.toks, tok{"num", strings.ReplaceAll(src[i:j], "_", "")})
			i = j
		case c == '"':
			j := i + 1
			var b strings.Builder
			for j < len(src) && src[j] != '"' {
				if src[j] == '\\' && j+1 < len(src) {
					j++
					switch src[j] {
					case 'n':
						b.WriteByte('\n')
					case 't':
						b.WriteByte('\t')
					default:
						b.WriteByte(src[j])
					}
				} else {
					b.WriteByte(src[j])
				}
				j++
			}
			if j >= len(src) {
				return nil, fmt.Errorf("unterminated string in %q", src)
			}
			l.toks = append(l.toks, tok{"str", b.String()})
			i = j + 1
		case c == '\'':
			// char literal
			if i+2 < len(src) && src[i+2] == '\'' {
				l.toks = append(l.toks, tok{"num", fmt.Sprint(int(src[i+1]))})
				i += 3
			} else {
				return nil, fmt.Errorf("bad char literal in %q", src)
			}
		default:
			matched := false
			for _, o := range ops3 {
				if strings.HasPrefix(src[i:], o) {
					l.toks = append(l.toks, tok{"op", o})
					i += len(o)
					matched = true
					break
				}
			}
			if !matched {
				l.toks = append(l.toks, tok{"op", string(c)})
				i++
			}
		}
	}
	l.toks = append(l.toks, tok{"eof", ""})
	return l, nil
}

func (l *lexer) peek() tok { return l.toks[l.p] }
func (l *lexer) next() tok  { t := l.toks[l.p]; l.p++; return t }
func (l *lexer) accept(s string) bool {
	if t := l.peek(); (t.kind == "op" || t.kind == "id") && t.s == s {
		l.p++
		return true
	}
	return false
}
func (l *lexer) expect(s string) error {
	if !l.accept(s) {
		return fmt.Errorf("expected %q, got %q in %q", s, l.peek().s, l.src)
	}
	return nil
}

func ParseSpecExpr(src string) (e SExpr, err error) {
	l, err := lex(src)
	if err != nil {
		return nil, err
	}
	defer func() {
		if r := recover(); r != nil {
			err = fmt.Errorf("%v", r)
		}
	}()
	e = l.parseExpr()
	if l.peek().kind != "eof" {
		return nil, fmt.Errorf("trailing tokens at %q in %q", l.peek().s, src)
	}
	return e, nil
}

func (l *lexer) parseExpr() SExpr {
	if t := l.peek(); t.kind == "id" && (t.s == "forall" || t.s == "exists") {
		l.next()
		q := &SQuant{Forall: t.s == "forall"}
		for {
			name := l.next()
			if name.kind != "id" {
				panic(fmt.Sprintf("quantifier variable expected in %q", l.src))
			}
			ty := l.parseTypeName()
			q.Vars = append(q.Vars, SVar{name.s, ty})
			if !l.accept(",") {
				break
			}
		}
		if err := l.expect("::"); err != nil {
			panic(err)
		}
		q.Body = l.parseExpr()
		return q
	}
	return l.parseIff()
}

func (l *lexer) parseTypeName() string {
	var b strings.Builder
	for {
		t := l.peek()
		if t.kind == "id" || (t.kind == "op" && (t.s == "*" || t.s == "." || t.s == "[" || t.s == "]")) {
			b.WriteString(t.s)
			l.next()
			continue
		}
		break
	}
	return b.String()
}

func (l *lexer) parseIff() SExpr {
	x := l.parseImp()
	for l.accept("<==>") {
		y := l.parseImp()
		x = &SBin{"<==>", x, y}
	}
	return x
}

func (l *lexer) parseImp() SExpr {
	x := l.parseOr()
	if l.accept("==>") {
		var y SExpr
		if t := l.peek(); t.kind == "id" && (t.s == "forall" || t.s == "exists") {
			y = l.parseExpr()
		} else {
			y = l.parseImp()
		}
		return &SBin{"==>", x, y}
	}
	return x
}

func (l *lexer) parseOr() SExpr {
	x := l.parseAnd()
	for l.accept("||") {
		x = &SBin{"||", x, l.parseAnd()}
	}
	return x
}

func (l *lexer) parseAnd() SExpr {
	x := l.parseCmp()
	for l.accept("&&") {
		var y SExpr
		if t := l.peek(); t.kind == "id" && (t.s == "forall" || t.s == "exists") {
			y = l.parseExpr()
		} else {
			y = l.parseCmp()
		}
		x = &SBin{"&&", x, y}
	}
	return x
}

func (l *lexer) parseCmp() SExpr {
	x := l.parseAdd()
	for {
		t := l.peek()
		if t.kind == "op" && (t.s == "==" || t.s == "!=" || t.s == "<" || t.s == "<=" || t.s == ">" || t.s == ">=") {
			l.next()
			x = &SBin{t.s, x, l.parseAdd()}
			continue
		}
		if t.kind == "id" && t.s == "in" {
			l.next()
			x = &SBin{"in", x, l.parseAdd()}
			continue
		}
		return x
	}
}

func (l *lexer) parseAdd() SExpr {
	x := l.parseMul()
	for {
		t := l.peek()
		if t.kind == "op" && (t.s == "+" || t.s == "-") {
			l.next()
			x = &SBin{t.s, x, l.parseMul()}
			continue
		}
		return x
	}
}

func (l *lexer) parseMul() SExpr {
	x := l.parseUnary()
	for {
		t := l.peek()
		if t.kind == "op" && (t.s == "*" || t.s == "/" || t.s == "%") {
			l.next()
			x = &SBin{t.s, x, l.parseUnary()}
			continue
		}
		return x
	}
}

func (l *lexer) parseUnary() SExpr {
	t := l.peek()
	if t.kind == "op" && (t.s == "!" || t.s == "-") {
		l.next()
		return &SUn{t.s, l.parseUnary()}
	}
	return l.parsePostfix()
}

func (l *lexer) parsePostfix() SExpr {
	x := l.parsePrimary()
	for {
		switch {
		case l.accept("."):
			n := l.next()
			if n.kind != "id" {
				panic(fmt.Sprintf("field name expected after '.' in %q", l.src))
			}
			x = &SSel{x, n.s}
		case l.accept("("):
			var args []SExpr
			if !l.accept(")") {
				for {
					args = append(args, l.parseExpr())
					if l.accept(")") {
						break
					}
					if err := l.expect(","); err != nil {
						panic(err)
					}
				}
			}
			x = &SCall{x, args}
		case l.accept("["):
			var lo, hi SExpr
			if l.accept(":") {
				hi = l.parseExpr()
				if err := l.expect("]"); err != nil {
					panic(err)
				}
				x = &SSlice{x, nil, hi}
				continue
			}
			lo = l.parseExpr()
			if l.accept(":") {
				if !l.accept("]") {
					hi = l.parseExpr()
					if err := l.expect("]"); err != nil {
						panic(err)
					}
				}
				x = &SSlice{x, lo, hi}
				continue
			}
			if err := l.expect("]"); err != nil {
				panic(err)
			}
			x = &SIndex{x, lo}
		default:
			return x
		}
	}
}

func (l *lexer) parsePrimary() SExpr {
	t := l.next()
	switch t.kind {
	case "id":
		return &SIdent{t.s}
	case "num":
		return &SLit{"int", t.s}
	case "str":
		return &SLit{"string", t.s}
	case "op":
		if t.s == "(" {
			e := l.parseExpr()
			if err := l.expect(")"); err != nil {
				panic(err)
			}
			return e
		}
	}
	panic(fmt.Sprintf("unexpected token %q in %q", t.s, l.src))
}

// ---------------------------------------------------------------------------
// Contracts

type Clause struct {
	Kind  string // requires ensures invariant
	Label string
	Src   string
	Expr  SExpr
	File  string
	Line  int
}

type LoopSpec struct {
	Invariants []*Clause
}

type GhostUpdate struct {
	Anchor string // source text of a call expr (whitespace-insensitive), optional #k
	Occ    int    // 0 = all
	Var    string
	Src    string
	Expr   SExpr
	When   string // before | after
	Assume bool   // call-site assumption about an external callee (trusted, listed)
	Seq    int    // declaration order
	Optional bool // "@?anchor": no error when the anchor matches no call
	Define   bool // ghost define @anchor: X :: P
}

var anchorSeq int

type GhostVar struct {
	Name string
	Type string // int | bool | string | map[K]V (spec sorts)
	Init SExpr
	Src  string
}

type SpecFn struct {
	Name   string
	Params []SVar
	Ret    string
	Body   SExpr
	Src    string
}

type FuncContract struct {
	Key        string // normalized full name
	RecvName   string
	ParamNames []string // optional override
	Requires   []*Clause
	Ensures    []*Clause
	Loops      map[int]*LoopSpec
	Assigns    []string // ghost names, heap array patterns, or "*"
	HasAssigns bool
	Pure       bool
	Trusted    bool
	Safe       bool
	Inline     bool
	NoHeap     bool // callee does not modify caller-visible heap (checked for functions with bodies, assumed for externals)
	WritesArg  int  // external callee writes (only) the object its N-th argument points to; -1 = none
	CallsArg   int  // external callee invokes its N-th argument (a func literal) exactly once; -1 = none
	OnceGuard  string // with CallsArg: name of the ghost map guarding the invocation (sync.Once)
	GhostVars  []*GhostVar
	Updates    []*GhostUpdate
	Asserts    []*GhostUpdate // assert @anchor: expr (Var empty)
	File       string
	Line       int
}

type TypeContract struct {
	Key        string // pkgpath.Type
	Monitors   []MonitorSpec
	Invariants []*Clause
	Stable     []string // fields never assigned outside the functions in StableSetIn
	StableIn   []string // function names allowed to assign stable fields (constructors)
	// PureFuncs: fields of function type whose values (injected clocks, random sources, ...) are
	// assumed to touch nothing of the program: a call through such a field havocs no heap
	PureFuncs []string
}

type MonitorSpec struct {
	Mutex    string
	Protects []string
}

type ContractDB struct {
	Funcs  map[string]*FuncContract
	Types  map[string]*TypeContract
	Ghosts map[string]*GhostVar
	SpecFn map[string]*SpecFn
	Consts map[string]SExpr
	Files  []string
}

func NewContractDB() *ContractDB {
	db := &ContractDB{Funcs: map[string]*FuncContract{}, Types: map[string]*TypeContract{}, Ghosts: map[string]*GhostVar{}, SpecFn: map[string]*SpecFn{}, Consts: map[string]SExpr{}}
	// built-in ghost: set of closed channels (updated by the close builtin)
	db.Ghosts["chanClosed"] = &GhostVar{Name: "chanClosed", Type: "map[int]bool"}
	return db
}

const modPath = "github.com/rqlite/rqlite/v10"

var typeArgRe = regexp.MustCompile(`\[[^\]\[]*\]`)

func normKey(k string) string {
	k = strings.ReplaceAll(k, "rq/", modPath+"/")
	for {
		n := typeArgRe.ReplaceAllString(k, "")
		if n == k {
			break
		}
		k = n
	}
	return k
}

var labelRe = regexp.MustCompile(`^\[([A-Za-z0-9_\-.,=> ]+)\]\s*`)
var funcHdrRe = regexp.MustCompile(`^func\s+(?:\(\s*(?:([A-Za-z_]\w*)\s+)?(\*?)([^)\s]+)\s*\)\s*)?([A-Za-z_][\w./\-$]*)\s*(?:\(([^)]*)\))?\s*$`)

// ParseContracts parses the //@ lines (or raw lines when raw is true) of a file.
// pkgPath qualifies unqualified names ("" for spec files, where names must be qualified).
func (db *ContractDB) ParseContracts(file string, lines []string, lineNos []int, pkgPath string) error {
	var curF *FuncContract
	var curT *TypeContract
	var lastSrc *string // continuation target
	var lastFinish func() error
	finish := func() error {
		if lastFinish != nil {
			f := lastFinish
			lastFinish = nil
			lastSrc = nil
			return f()
		}
		return nil
	}
	qualify := func(name string) string {
		if strings.Contains(name, ".") || pkgPath == "" {
			return normKey(name)
		}
		return pkgPath + "." + name
	}
	for idx, raw := range lines {
		ln := lineNos[idx]
		line := strings.TrimSpace(raw)
		if line == "" || strings.HasPrefix(line, "#") {
			continue
		}
		word := line
		rest := ""
		if i := strings.IndexAny(line, " \t"); i >= 0 {
			word, rest = line[:i], strings.TrimSpace(line[i+1:])
		}
		errf := func(format string, a ...any) error {
			return fmt.Errorf("%s:%d: %s", file, ln, fmt.Sprintf(format, a...))
		}
		mkClause := func(kind, rest string) (*Clause, error) {
			c := &Clause{Kind: kind, File: file, Line: ln}
			if m := labelRe.FindStringSubmatch(rest); m != nil {
				c.Label = m[1]
				rest = rest[len(m[0]):]
			} else {
				return nil, errf("%s clause needs a [label]", kind)
			}
			c.Src = rest
			lastSrc = &c.Src
			lastFinish = func() error {
				e, err := ParseSpecExpr(c.Src)
				if err != nil {
					return fmt.Errorf("%s:%d: %v", file, c.Line, err)
				}
				c.Expr = e
				return nil
			}
			return c, nil
		}
		switch word {
		case "spec":
			if err := finish(); err != nil {
				return err
			}
			// "spec import X"
			f := strings.Fields(rest)
			if len(f) == 2 && f[0] == "import" {
				if err := db.LoadSpecFile("/verif/specs/" + f[1] + ".spec"); err != nil {
					return err
				}
			} else {
				return errf("bad spec directive")
			}
		case "type":
			if err := finish(); err != nil {
				return err
			}
			curF = nil
			key := qualify(strings.TrimSpace(rest))
			curT = db.Types[key]
			if curT == nil {
				curT = &TypeContract{Key: key}
				db.Types[key] = curT
			}
		case "func":
			if err := finish(); err != nil {
				return err
			}
			curT = nil
			m := funcHdrRe.FindStringSubmatch(line)
			if m == nil {
				return errf("bad func header %q", line)
			}
			var key string
			if m[3] != "" {
				key = "(" + m[2] + qualify(m[3]) + ")." + m[4]
			} else {
				key = qualify(m[4])
			}
			key = normKey(key)
			curF = db.Funcs[key]
			if curF == nil {
				curF = &FuncContract{Key: key, Loops: map[int]*LoopSpec{}, File: file, Line: ln, WritesArg: -1, CallsArg: -1}
				db.Funcs[key] = curF
			}
			if m[1] != "" {
				curF.RecvName = m[1]
			}
			if strings.TrimSpace(m[5]) != "" {
				curF.ParamNames = nil
				for _, p := range strings.Split(m[5], ",") {
					curF.ParamNames = append(curF.ParamNames, strings.TrimSpace(p))
				}
			}
		case "ghost":
			if err := finish(); err != nil {
				return err
			}
			// ghost var NAME TYPE [= init]   |  ghost update @anchor: x = e
			f := strings.Fields(rest)
			if len(f) >= 3 && f[0] == "var" {
				gv := &GhostVar{Name: f[1]}
				r := strings.TrimSpace(strings.TrimPrefix(strings.TrimSpace(strings.TrimPrefix(rest, "var")), f[1]))
				if i := strings.Index(r, "="); i >= 0 {
					gv.Type = strings.TrimSpace(r[:i])
					gv.Src = strings.TrimSpace(r[i+1:])
					e, err := ParseSpecExpr(gv.Src)
					if err != nil {
						return errf("%v", err)
					}
					gv.Init = e
				} else {
					gv.Type = r
				}
				if curF != nil {
					curF.GhostVars = append(curF.GhostVars, gv)
				} else {
					db.Ghosts[gv.Name] = gv
				}
			} else if len(f) >= 2 && f[0] == "define" {
				if curF == nil {
					return errf("ghost define outside func")
				}
				r := strings.TrimSpace(strings.TrimPrefix(rest, "define"))
				// @anchor: X :: P   (rewritten to the update form "X = P")
				i := strings.Index(r, "::")
				if i < 0 {
					return errf("ghost define needs X :: P")
				}
				r = r[:i] + "=" + r[i+2:]
				gu, err := parseAnchored(r, true)
				if err != nil {
					return errf("%v", err)
				}
				gu.Define = true
				curF.Updates = append(curF.Updates, gu)
			} else if len(f) >= 2 && f[0] == "update" {
				if curF == nil {
					return errf("ghost update outside func")
				}
				r := strings.TrimSpace(strings.TrimPrefix(rest, "update"))
				gu, err := parseAnchored(r, true)
				if err != nil {
					return errf("%v", err)
				}
				curF.Updates = append(curF.Updates, gu)
			} else {
				return errf("bad ghost directive")
			}
		case "assert", "assume":
			if err := finish(); err != nil {
				return err
			}
			if curF == nil {
				return errf("assert outside func")
			}
			gu, err := parseAnchored(rest, false)
			if err != nil {
				return errf("%v", err)
			}
			if word == "assume" {
				gu.Assume = true
				gu.When = "after"
				if strings.HasPrefix(rest, "before ") {
					// "assume before @anchor: P": a fact about the arguments, assumed before the call's preconditions are checked
					gu.When = "before"
				}
			}
			curF.Asserts = append(curF.Asserts, gu)
		case "fn":
			if err := finish(); err != nil {
				return err
			}
			sf, err := parseSpecFn(rest)
			if err != nil {
				return errf("%v", err)
			}
			db.SpecFn[sf.Name] = sf
			lastSrc = &sf.Src
			lastFinish = func() error {
				e, err := ParseSpecExpr(sf.Src)
				if err != nil {
					return fmt.Errorf("%s:%d: %v", file, ln, err)
				}
				sf.Body = e
				return nil
			}
		case "const":
			if err := finish(); err != nil {
				return err
			}
			i := strings.Index(rest, "=")
			if i < 0 {
				return errf("bad const")
			}
			e, err := ParseSpecExpr(strings.TrimSpace(rest[i+1:]))
			if err != nil {
				return errf("%v", err)
			}
			db.Consts[strings.TrimSpace(rest[:i])] = e
		case "requires", "ensures":
			if err := finish(); err != nil {
				return err
			}
			if curF == nil {
				return errf("%s outside func", word)
			}
			c, err := mkClause(word, rest)
			if err != nil {
				return err
			}
			if word == "requires" {
				curF.Requires = append(curF.Requires, c)
			} else {
				curF.Ensures = append(curF.Ensures, c)
			}
		case "invariant":
			if err := finish(); err != nil {
				return err
			}
			if curT == nil {
				return errf("invariant outside type (use 'loop N invariant' in funcs)")
			}
			c, err := mkClause("invariant", rest)
			if err != nil {
				return err
			}
			curT.Invariants = append(curT.Invariants, c)
		case "stable", "stable_set_in":
			if err := finish(); err != nil {
				return err
			}
			if curT == nil {
				if curF != nil && word == "stable" {
					// function-level: ignored (kept for documentation)
					continue
				}
				return errf("%s outside type", word)
			}
			for _, a := range strings.Split(rest, ",") {
				if a = strings.TrimSpace(a); a != "" {
					if word == "stable" {
						curT.Stable = append(curT.Stable, a)
					} else {
						curT.StableIn = append(curT.StableIn, a)
					}
				}
			}
		case "purefunc":
			if err := finish(); err != nil {
				return err
			}
			if curT == nil {
				return errf("purefunc outside type")
			}
			for _, a := range strings.Split(rest, ",") {
				if a = strings.TrimSpace(a); a != "" {
					curT.PureFuncs = append(curT.PureFuncs, a)
				}
			}
		case "monitor":
			if err := finish(); err != nil {
				return err
			}
			if curT == nil {
				return errf("monitor outside type")
			}
			f := strings.Fields(strings.ReplaceAll(rest, ",", " "))
			if len(f) < 3 || f[1] != "protects" {
				return errf("bad monitor clause")
			}
			curT.Monitors = append(curT.Monitors, MonitorSpec{Mutex: f[0], Protects: f[2:]})
		case "loop":
			if err := finish(); err != nil {
				return err
			}
			if curF == nil {
				return errf("loop outside func")
			}
			f := strings.Fields(rest)
			if len(f) < 3 || f[1] != "invariant" {
				return errf("bad loop clause")
			}
			var n int
			if _, err := fmt.Sscanf(f[0], "%d", &n); err != nil {
				return errf("bad loop ordinal")
			}
			r := strings.TrimSpace(strings.TrimPrefix(strings.TrimSpace(strings.TrimPrefix(rest, f[0])), "invariant"))
			c, err := mkClause("invariant", r)
			if err != nil {
				return err
			}
			ls := curF.Loops[n]
			if ls == nil {
				ls = &LoopSpec{}
				curF.Loops[n] = ls
			}
			ls.Invariants = append(ls.Invariants, c)
		case "assigns":
			if err := finish(); err != nil {
				return err
			}
			if curF == nil {
				return errf("assigns outside func")
			}
			curF.HasAssigns = true
			for _, a := range strings.Split(rest, ",") {
				if a = strings.TrimSpace(a); a != "" && a != "nothing" {
					curF.Assigns = append(curF.Assigns, a)
				}
			}
		case "pure", "trusted", "safe", "inline", "noheap", "writes_arg", "calls_arg", "calls_arg_once":
			if err := finish(); err != nil {
				return err
			}
			if curF == nil {
				return errf("%s outside func", word)
			}
			switch word {
			case "writes_arg":
				fmt.Sscanf(rest, "%d", &curF.WritesArg)
			case "calls_arg":
				fmt.Sscanf(rest, "%d", &curF.CallsArg)
			case "calls_arg_once":
				// calls_arg_once N GUARD : the literal runs iff ghost GUARD[receiver] is false; then GUARD is set
				fmt.Sscanf(rest, "%d %s", &curF.CallsArg, &curF.OnceGuard)
			case "pure":
				curF.Pure = true
			case "trusted":
				curF.Trusted = true
			case "safe":
				curF.Safe = true
			case "inline":
				curF.Inline = true
			case "noheap":
				curF.NoHeap = true
			}
		default:
			// continuation of previous expression
			if lastSrc != nil {
				*lastSrc += " " + line
			} else {
				return errf("unknown directive %q", word)
			}
		}
	}
	return finish()
}

func parseAnchored(r string, isUpdate bool) (*GhostUpdate, error) {
	// [before|after] @anchor[#k]: x = expr      or     @anchor: expr
	anchorSeq++
	gu := &GhostUpdate{When: "after", Seq: anchorSeq}
	if strings.HasPrefix(r, "before ") {
		gu.When = "before"
		r = strings.TrimSpace(r[7:])
	} else if strings.HasPrefix(r, "after ") {
		r = strings.TrimSpace(r[6:])
		if !isUpdate {
			// "assert after @anchor: [label] P": P is checked in the state right after the anchored
			// call / statement (results and the effects of the statement are visible)
			gu.When = "after!"
		}
	}
	if !isUpdate {
		if gu.When == "after!" {
			gu.When = "after"
		} else {
			gu.When = "before"
		}
	}
	if !strings.HasPrefix(r, "@") {
		return nil, fmt.Errorf("anchor expected")
	}
	// the anchor ends at the first ": " at paren depth 0
	depth := 0
	end := -1
	for i := 1; i < len(r); i++ {
		switch r[i] {
		case '(', '[', '{':
			depth++
		case ')', ']', '}':
			depth--
		case ':':
			if depth == 0 && i+1 < len(r) && r[i+1] == ' ' {
				end = i
			}
		}
		if end >= 0 {
			break
		}
	}
	if end < 0 {
		return nil, fmt.Errorf("anchor must be followed by ': '")
	}
	anchor := r[1:end]
	body := strings.TrimSpace(r[end+1:])
	if m := regexp.MustCompile(`#(\d+)$`).FindStringSubmatch(anchor); m != nil {
		fmt.Sscanf(m[1], "%d", &gu.Occ)
		anchor = anchor[:len(anchor)-len(m[0])]
	}
	gu.Anchor = stripWS(anchor)
	if strings.HasPrefix(gu.Anchor, "?") {
		gu.Anchor = gu.Anchor[1:]
		gu.Optional = true
	}
	if isUpdate {
		i := strings.Index(body, "=")
		if i < 0 {
			return nil, fmt.Errorf("ghost update needs x = e")
		}
		gu.Var = strings.TrimSpace(body[:i])
		body = strings.TrimSpace(body[i+1:])
	} else {
		if m := labelRe.FindStringSubmatch(body); m != nil {
			gu.Var = m[1] // label
			body = body[len(m[0]):]
		} else {
			return nil, fmt.Errorf("assert needs a [label]")
		}
	}
	gu.Src = body
	e, err := ParseSpecExpr(body)
	if err != nil {
		return nil, err
	}
	gu.Expr = e
	return gu, nil
}

func stripWS(s string) string {
	return strings.Map(func(r rune) rune {
		if unicode.IsSpace(r) {
			return -1
		}
		return r
	}, s)
}

var specFnRe = regexp.MustCompile(`^([A-Za-z_]\w*)\s*\(([^)]*)\)\s*([A-Za-z_\[\]\*\.\w]*)\s*=\s*(.*)$`)

func parseSpecFn(rest string) (*SpecFn, error) {
	m := specFnRe.FindStringSubmatch(rest)
	if m == nil {
		return nil, fmt.Errorf("bad fn definition %q", rest)
	}
	sf := &SpecFn{Name: m[1], Ret: m[3], Src: m[4]}
	if strings.TrimSpace(m[2]) != "" {
		for _, p := range strings.Split(m[2], ",") {
			f := strings.Fields(p)
			if len(f) == 1 {
				sf.Params = append(sf.Params, SVar{f[0], ""})
			} else if len(f) == 2 {
				sf.Params = append(sf.Params, SVar{f[0], f[1]})
			} else {
				return nil, fmt.Errorf("bad fn parameter %q", p)
			}
		}
	}
	return sf, nil
}

var loadedSpecs = map[string]bool{}

func (db *ContractDB) LoadSpecFile(path string) error {
	if loadedSpecs[path] {
		return nil
	}
	loadedSpecs[path] = true
	b, err := os.ReadFile(path)
	if err != nil {
		return err
	}
	db.Files = append(db.Files, path)
	var lines []string
	var nos []int
	for i, l := range strings.Split(string(b), "\n") {
		l = strings.TrimSpace(l)
		l = strings.TrimPrefix(l, "//@")
		lines = append(lines, l)
		nos = append(nos, i+1)
	}
	return db.ParseContracts(path, lines, nos, "")
}

// LoadContractSource extracts //@ lines from Go source text.
func (db *ContractDB) LoadContractSource(path string, src string, pkgPath string) error {
	db.Files = append(db.Files, path)
	var lines []string
	var nos []int
	for i, l := range strings.Split(src, "\n") {
		t := strings.TrimSpace(l)
		if strings.HasPrefix(t, "//@") {
			lines = append(lines, strings.TrimPrefix(t, "//@"))
			nos = append(nos, i+1)
		}
	}
	return db.ParseContracts(path, lines, nos, pkgPath)
}
