package main

import "go/ast"

// ghostOnlyGrowsIn: every anchored update of ghost local g inside node at has the shape
// g = update(g, k, true).
func (vc *VC) ghostOnlyGrowsIn(at ast.Node, g string) bool {
	ok := true
	found := false
	check := func(items []anchoredItem) {
		for _, it := range items {
			if !it.isUpdate || it.gu.Var != g {
				continue
			}
			found = true
			if it.gu.Define {
				ok = false
				continue
			}
			c, isCall := it.gu.Expr.(*SCall)
			if !isCall || len(c.Args) != 3 {
				ok = false
				continue
			}
			fn, _ := c.Fun.(*SIdent)
			a0, _ := c.Args[0].(*SIdent)
			a2, _ := c.Args[2].(*SIdent)
			if fn == nil || fn.Name != "update" || a0 == nil || a0.Name != g || a2 == nil || a2.Name != "true" {
				ok = false
			}
		}
	}
	ast.Inspect(at, func(n ast.Node) bool {
		if call, isCall := n.(*ast.CallExpr); isCall {
			check(vc.anchored[call])
		}
		if n != nil {
			check(vc.anchoredNodes[n])
		}
		return true
	})
	return ok && found
}
