package main

// Verification-condition context: symbolic state, merging, heap model, sorts.

import (
	"fmt"
	"os"
	"go/ast"
	"go/token"
	"go/types"
	"sort"
	"strings"
)

type Obligation struct {
	Name   string
	Kind   string
	Pos    string
	Src    string // clause source text
	NCmds  int    // prefix of vc.cmds to include
	PC     Term
	Goal   Term
	vc     *VC
	Result SolverResult
	Cover  bool // vacuity cover: expected sat/unknown
	Static bool // decided syntactically (no SMT query)
	Label  string // clause label (for hypothesis slicing)
	RawQuery string // complete SMT-LIB query produced by an extra engine
}

type State struct {
	pc   Term
	vars map[types.Object]Term
	heap map[string]Term // heap arrays, globals ("G$"), ghosts ("ghost$"), locals ghosts ("gl$")
}

func (s *State) clone() *State {
	n := &State{pc: s.pc, vars: make(map[types.Object]Term, len(s.vars)), heap: make(map[string]Term, len(s.heap))}
	for k, v := range s.vars {
		n.vars[k] = v
	}
	for k, v := range s.heap {
		n.heap[k] = v
	}
	return n
}

var curVC *VC

func (s *State) assume(t Term) {
	s.pc = And(s.pc, t)
	if curVC != nil && len(s.pc.S) > 400 {
		n := curVC.fresh("pc", SBool)
		curVC.emit("(assert (= " + n.S + " " + s.pc.S + "))")
		s.pc = n
	}
}

type loopFrame struct {
	label    string
	isLoop   bool
	breaks   []*State
	conts    []*State
	stmt     ast.Stmt
}

type callFrame struct {
	info     *types.Info
	pkg      *types.Package
	results  []types.Object // result slots
	exits    []*State
	deferObj map[*ast.DeferStmt]*deferInfo
	defers   []*ast.DeferStmt // in source order
	loops    []*loopFrame
	fnName   string
	recv     types.Object
	closures map[types.Object]*ast.FuncLit
	boxed    map[types.Object]bool
	body     *ast.BlockStmt
	ftype    *ast.FuncType
	loopOrd  map[ast.Stmt]int
	contract *FuncContract // for the top frame only (loop invariants, ghost updates)
	top      bool
	entry    *State
}

type deferInfo struct {
	armed types.Object
	args  []types.Object
	recv  types.Object
}

type VC struct {
	prog     *Prog
	fn       *FuncInfo
	contract *FuncContract
	cmds     []string
	nfresh   int
	obls     []*Obligation
	universe map[string]string // heap name -> sort
	discover bool
	frames   []*callFrame
	notes    map[string]int // abstraction notes
	opaque   map[string]int
	assumedC map[string]int // contracts used at call sites
	ufs      map[string]bool
	safe     bool
	depth    int
	errs     []string
	errSent  map[string]bool
	oblCount map[string]int
	callSeq  map[string]int
	sentinels []string
	escapes  []string
	monitorEntries map[string]*State
	anchored map[*ast.CallExpr][]anchoredItem
	anchoredNodes map[ast.Node][]anchoredItem
	resultGoTypes []types.Type
	lastLock *State
	preEval  map[ast.Expr]Term
	argTerms []Term // evaluated arguments of the call whose anchored items are being applied
	privSlices map[types.Object]bool // private local slices of the function under verification (private.go)
	privStructs map[types.Object]bool // private struct-valued locals/parameters (private.go)
	privPtrs map[types.Object]bool // private pointers to objects under construction (private.go)
	curCall  *ast.CallExpr // the call being dispatched (innermost)
	inSpec   int // > 0 while a specification expression is being evaluated (no code-level checks)
	resultGoTypesOverride []types.Type // Go types of result0.. for return-statement anchors
}

func (vc *VC) cur() *callFrame { return vc.frames[len(vc.frames)-1] }
func (vc *VC) info() *types.Info { return vc.cur().info }

func (vc *VC) note(format string, a ...any) {
	vc.notes[fmt.Sprintf(format, a...)]++
}

func (vc *VC) fail(format string, a ...any) {
	vc.errs = append(vc.errs, fmt.Sprintf(format, a...))
}

func (vc *VC) emit(cmd string) {
	vc.cmds = append(vc.cmds, cmd)
}

func (vc *VC) fresh(hint, sort string) Term {
	vc.nfresh++
	hint = sanitize(hint)
	name := fmt.Sprintf("%s!%d", hint, vc.nfresh)
	vc.emit(fmt.Sprintf("(declare-const %s %s)", name, sort))
	return Term{name, sort}
}

func sanitize(s string) string {
	var b strings.Builder
	for _, r := range s {
		if (r >= 'a' && r <= 'z') || (r >= 'A' && r <= 'Z') || (r >= '0' && r <= '9') || r == '_' || r == '$' || r == '.' {
			b.WriteRune(r)
		} else {
			b.WriteByte('_')
		}
	}
	if b.Len() == 0 {
		return "t"
	}
	return b.String()
}

// name a big term by a fresh constant (conservative definitional extension)
func (vc *VC) nameTerm(hint string, t Term) Term {
	if len(t.S) < 160 {
		return t
	}
	c := vc.fresh(hint, t.Sort)
	vc.emit(fmt.Sprintf("(assert (= %s %s))", c.S, t.S))
	return c
}

func (vc *VC) declareUF(name string, argSorts []string, ret string) {
	if vc.ufs[name] {
		return
	}
	vc.ufs[name] = true
	vc.emit(fmt.Sprintf("(declare-fun %s (%s) %s)", name, strings.Join(argSorts, " "), ret))
}

func (vc *VC) uf(name string, ret string, args ...Term) Term {
	var as []string
	for _, a := range args {
		as = append(as, a.Sort)
	}
	full := name
	if name == "str_lower" && len(args) == 1 && len(args[0].S) >= 2 && args[0].S[0] == '"' && !strings.Contains(args[0].S, "\\u") {
		// lower-casing a literal is computed (ASCII letters), so that different literals stay
		// different under case folding
		return Term{strings.ToLower(args[0].S), ret}
	}
	vc.declareUF(full, as, ret)
	if len(args) == 0 {
		return Term{full, ret}
	}
	return app(ret, full, args...)
}

// ---------------------------------------------------------------------------
// sorts

func isErrorType(t types.Type) bool {
	if n, ok := t.(*types.Named); ok {
		return n.Obj().Pkg() == nil && n.Obj().Name() == "error"
	}
	return false
}

func namedIs(t types.Type, pkg, name string) bool {
	if p, ok := t.(*types.Pointer); ok {
		t = p.Elem()
	}
	if a, ok := t.(*types.Alias); ok {
		t = types.Unalias(a)
	}
	n, ok := t.(*types.Named)
	if !ok || n.Obj().Pkg() == nil {
		return false
	}
	return n.Obj().Pkg().Path() == pkg && n.Obj().Name() == name
}

func sortOfType(t types.Type) string {
	if t == nil {
		return SInt
	}
	t = types.Unalias(t)
	if namedIs(t, "time", "Time") {
		if _, isPtr := t.(*types.Pointer); !isPtr {
			return SInt
		}
	}
	switch u := t.Underlying().(type) {
	case *types.Basic:
		switch {
		case u.Info()&types.IsBoolean != 0:
			return SBool
		case u.Info()&types.IsString != 0:
			return SStr
		case u.Info()&types.IsFloat != 0, u.Info()&types.IsComplex != 0:
			return SF64
		default:
			return SInt
		}
	case *types.Slice:
		return SSlc
	case *types.Array:
		return SSlc
	default:
		_ = u
		return SInt
	}
}

func zeroOfSort(s string) Term {
	switch s {
	case SInt:
		return IntLit(0)
	case SBool:
		return TFalse
	case SStr:
		return StrLit("")
	case SSlc:
		return Term{"(mkslc 0 0 0)", SSlc}
	case SF64:
		return Term{"f64zero", SF64}
	}
	if k, v, ok := arrParts(s); ok {
		return Term{fmt.Sprintf("((as const (Array %s %s)) %s)", k, v, zeroOfSort(v).S), s}
	}
	return IntLit(0)
}

func typeName(t types.Type) string {
	t = types.Unalias(t)
	if p, ok := t.(*types.Pointer); ok {
		t = types.Unalias(p.Elem())
	}
	if n, ok := t.(*types.Named); ok {
		if n.Obj().Pkg() != nil {
			return n.Obj().Pkg().Path() + "." + n.Obj().Name()
		}
		return n.Obj().Name()
	}
	return sanitize(t.String())
}

func shortPkg(s string) string {
	return strings.ReplaceAll(strings.TrimPrefix(s, modPath+"/"), "/", ".")
}

func fieldHeapName(structT types.Type, field string) string {
	return "F$" + shortPkg(typeName(structT)) + "$" + field
}

func structOf(t types.Type) *types.Struct {
	t = types.Unalias(t)
	if p, ok := t.Underlying().(*types.Pointer); ok {
		t = p.Elem()
	}
	if s, ok := t.Underlying().(*types.Struct); ok {
		return s
	}
	return nil
}

func isStructVal(t types.Type) bool {
	if t == nil {
		return false
	}
	t = types.Unalias(t)
	if namedIs(t, "time", "Time") {
		return false
	}
	_, ok := t.Underlying().(*types.Struct)
	return ok
}

// int type range
func intRange(t types.Type) (lo, hi string, ok bool) {
	b, isB := types.Unalias(t).Underlying().(*types.Basic)
	if !isB {
		return
	}
	switch b.Kind() {
	case types.Int, types.Int64:
		return "-9223372036854775808", "9223372036854775807", true
	case types.Int32:
		return "-2147483648", "2147483647", true
	case types.Int16:
		return "-32768", "32767", true
	case types.Int8:
		return "-128", "127", true
	case types.Uint, types.Uint64, types.Uintptr:
		return "0", "18446744073709551615", true
	case types.Uint32:
		return "0", "4294967295", true
	case types.Uint16:
		return "0", "65535", true
	case types.Uint8:
		return "0", "255", true
	}
	return
}

func (vc *VC) rangeFact(t types.Type, v Term) Term {
	if v.Sort == SSlc {
		l := Term{"(slen " + v.S + ")", SInt}
		if !vc.contract.Safe || os.Getenv("GOVC_NOSLENMAX") != "" {
			return app(SBool, ">=", l, IntLit(0))
		}
		// a length is an int (needed only where lengths are converted between integer types:
		// stated for functions under a safety contract, where such conversions are checked)
		return And(app(SBool, ">=", l, IntLit(0)), app(SBool, "<=", l, BigLit("9223372036854775807")))
	}
	if v.Sort != SInt {
		return TTrue
	}
	lo, hi, ok := intRange(t)
	if !ok {
		return TTrue
	}
	return And(app(SBool, "<=", BigLit(lo), v), app(SBool, "<=", v, BigLit(hi)))
}

// ---------------------------------------------------------------------------
// heap access

func (vc *VC) heapGet(st *State, name, sort string) Term {
	if t, ok := st.heap[name]; ok {
		return t
	}
	if _, ok := vc.universe[name]; !ok {
		vc.universe[name] = sort
		if !vc.discover {
			// A name discovered in the real pass only: treat as machinery error.
			vc.fail("heap name %s discovered after discovery pass", name)
		}
	}
	// in discovery pass: make up a value
	t := vc.fresh(name, sort)
	st.heap[name] = t
	return t
}

func (vc *VC) heapSet(st *State, name string, v Term) {
	if _, ok := vc.universe[name]; !ok {
		vc.universe[name] = v.Sort
		if !vc.discover {
			vc.fail("heap name %s discovered after discovery pass", name)
		}
	}
	st.heap[name] = v
}

func isGhostName(n string) bool { return strings.HasPrefix(n, "ghost$") || strings.HasPrefix(n, "gl$") }

// havocHeap havocs all non-ghost heap entries (opaque call).
func (vc *VC) havocHeap(st *State, why string) {
	names := vc.sortedUniverse()
	oldElems := map[string]Term{}
	for _, n := range names {
		if isGhostName(n) || strings.HasPrefix(n, "const$") || vc.prog.stableHeap[n] || heapStructVal[n] {
			continue
		}
		if strings.HasPrefix(n, "Elems$") || strings.HasPrefix(n, "F$") {
			if t, ok := st.heap[n]; ok {
				oldElems[n] = t
			}
		}
		st.heap[n] = vc.fresh(n, vc.universe[n])
	}
	if why == "loop" {
		return
	}
	// private struct locals (private.go): top-level fields keep their values
	vc.keepPrivateStructs(st, oldElems)
	if len(vc.privSlices) == 0 {
		return
	}
	// private local slices (private.go): a backing array allocated by this activation that only
	// the local variable can reach is not written by any callee
	var objs []types.Object
	for o := range st.vars {
		if vc.privSlices[o] && st.vars[o].Sort == SSlc {
			objs = append(objs, o)
		}
	}
	sort.Slice(objs, func(i, j int) bool { return objs[i].Pos() < objs[j].Pos() })
	for _, o := range objs {
		sl, ok := types.Unalias(o.Type()).Underlying().(*types.Slice)
		if !ok {
			continue
		}
		n := elemsName(sortOfType(sl.Elem()))
		old, ok := oldElems[n]
		if !ok {
			continue
		}
		v := st.vars[o]
		st.assume(Implies(app(SBool, ">", sbase(v), Term{"alloc$base", SInt}), Eq(Select(st.heap[n], sbase(v)), Select(old, sbase(v)))))
		vc.notes["private local slice "+o.Name()+": contents kept across opaque calls"]++
	}
}

// havocExternalHeap: library call that cannot touch rqlite struct fields.
func (vc *VC) havocExternalHeap(st *State) {
	old := vc.snapshotFields(st)
	defer vc.keepPrivateStructs(st, old)
	for _, n := range vc.sortedUniverse() {
		if isGhostName(n) || strings.HasPrefix(n, "const$") || heapStructVal[n] {
			continue
		}
		if strings.HasPrefix(n, "F$") || strings.HasPrefix(n, "G$") {
			// fields of rqlite types and rqlite package variables keep their values
			if isRqlitePkg(heapPkg[n]) {
				continue
			}
		}
		st.heap[n] = vc.fresh(n, vc.universe[n])
	}
}

func isStdType(tn string) bool {
	// shortPkg leaves non-rqlite paths untouched: e.g. "net/http.Request$Body", "sync.Mutex$x", "os.File$.."
	i := strings.Index(tn, "$")
	if i < 0 {
		return false
	}
	typ := tn[:i]
	j := strings.LastIndex(typ, ".")
	if j < 0 {
		return false
	}
	pkg := typ[:j]
	return !rqShortPkgs[pkg]
}

var rqShortPkgs = map[string]bool{}

func (vc *VC) sortedUniverse() []string {
	names := make([]string, 0, len(vc.universe))
	for n := range vc.universe {
		names = append(names, n)
	}
	sort.Strings(names)
	return names
}

func (vc *VC) havocGhosts(st *State, gs map[string]bool) {
	var names []string
	for g := range gs {
		names = append(names, g)
	}
	sort.Strings(names)
	for _, g := range names {
		gv := vc.prog.DB.Ghosts[g]
		if gv == nil {
			continue
		}
		n := "ghost$" + g
		st.heap[n] = vc.fresh(n, specSort(gv.Type))
		if _, ok := vc.universe[n]; !ok {
			vc.universe[n] = specSort(gv.Type)
		}
	}
}

// specSort maps a spec type name to an SMT sort.
func specSort(t string) string {
	t = strings.TrimSpace(t)
	switch t {
	case "", "int", "Int", "int64", "uint64", "uint32", "uint", "ref", "Ref", "error", "int32", "byte", "any", "time", "duration":
		return SInt
	case "bool", "Bool":
		return SBool
	case "string", "String":
		return SStr
	case "slice", "Slc":
		return SSlc
	}
	if strings.HasPrefix(t, "map[") {
		depth := 0
		for i := 4; i < len(t); i++ {
			switch t[i] {
			case '[':
				depth++
			case ']':
				if depth == 0 {
					return arrSort(specSort(t[4:i]), specSort(t[i+1:]))
				}
				depth--
			}
		}
	}
	if strings.HasPrefix(t, "[]") {
		return SSlc
	}
	if strings.HasPrefix(t, "*") {
		return SInt
	}
	return SInt
}

// ---------------------------------------------------------------------------
// merge

func (vc *VC) merge(states []*State) *State {
	var live []*State
	for _, s := range states {
		if s != nil && s.pc.S != "false" {
			live = append(live, s)
		}
	}
	if len(live) == 0 {
		return nil
	}
	if len(live) == 1 {
		return live[0]
	}
	out := &State{vars: map[types.Object]Term{}, heap: map[string]Term{}}
	var commonPC *Term
	if len(live) == 2 {
		if p1, c1, ok1 := splitAnd(live[0].pc.S); ok1 {
			if p2, c2, ok2 := splitAnd(live[1].pc.S); ok2 && p1 == p2 && (c2 == "(not "+c1+")" || c1 == "(not "+c2+")") {
				commonPC = &Term{p1, SBool}
			}
		}
	}
	var pcs []Term
	for i, s := range live {
		p := s.pc
		if len(p.S) > 60 {
			n := vc.fresh("pc", SBool)
			vc.emit(fmt.Sprintf("(assert (= %s %s))", n.S, p.S))
			p = n
			live[i] = &State{pc: p, vars: s.vars, heap: s.heap}
		}
		pcs = append(pcs, p)
	}
	out.pc = Or(pcs...)
	if commonPC != nil {
		out.pc = *commonPC
	} else if len(out.pc.S) > 60 {
		n := vc.fresh("pc", SBool)
		vc.emit(fmt.Sprintf("(assert (= %s %s))", n.S, out.pc.S))
		out.pc = n
	}
	// deferred calls registered on some of the merged paths only: the "armed" flag of a defer
	// statement that a path did not execute is false on that path (its saved receiver and
	// arguments are unconstrained there: they are used only when armed)
	{
		seen := map[types.Object]bool{}
		var ks []types.Object
		for _, s := range live {
			for k := range s.vars {
				if !seen[k] && (k.Name() == "armed" || strings.HasPrefix(k.Name(), "deferarg") || k.Name() == "deferrecv") && k.Pkg() == nil {
					seen[k] = true
					ks = append(ks, k)
				}
			}
		}
		sort.Slice(ks, func(i, j int) bool {
			if ks[i].Pos() != ks[j].Pos() {
				return ks[i].Pos() < ks[j].Pos()
			}
			return ks[i].Name() < ks[j].Name()
		})
		for _, k := range ks {
			var srt string
			for _, s := range live {
				if v, ok := s.vars[k]; ok {
					srt = v.Sort
				}
			}
			for i, s := range live {
				if _, ok := s.vars[k]; ok {
					continue
				}
				nvars := make(map[types.Object]Term, len(s.vars)+1)
				for kk, vv := range s.vars {
					nvars[kk] = vv
				}
				if k.Name() == "armed" {
					nvars[k] = TFalse
				} else {
					nvars[k] = vc.fresh(k.Name(), srt)
				}
				live[i] = &State{pc: s.pc, vars: nvars, heap: s.heap}
			}
		}
	}
	// vars: only those present in all states
	for k, v0 := range live[0].vars {
		same := true
		all := true
		for _, s := range live[1:] {
			v, ok := s.vars[k]
			if !ok {
				all = false
				break
			}
			if v.S != v0.S {
				same = false
			}
		}
		if !all {
			continue
		}
		if same {
			out.vars[k] = v0
			continue
		}
		nv := vc.fresh(k.Name(), v0.Sort)
		for _, s := range live {
			vc.emit(fmt.Sprintf("(assert (=> %s (= %s %s)))", s.pc.S, nv.S, s.vars[k].S))
		}
		out.vars[k] = nv
	}
	names := map[string]bool{}
	for _, s := range live {
		for n := range s.heap {
			names[n] = true
		}
	}
	var ns []string
	for n := range names {
		ns = append(ns, n)
	}
	sort.Strings(ns)
	for _, n := range ns {
		var v0 Term
		same := true
		all := true
		for i, s := range live {
			v, ok := s.heap[n]
			if !ok {
				all = false
				break
			}
			if i == 0 {
				v0 = v
			} else if v.S != v0.S {
				same = false
			}
		}
		if !all {
			// missing in some state (discovery pass only)
			if !vc.discover {
				vc.fail("heap name %s missing in a merged state", n)
			}
			out.heap[n] = vc.fresh(n, vc.universe[n])
			continue
		}
		if same {
			out.heap[n] = v0
			continue
		}
		nv := vc.fresh(n, v0.Sort)
		for _, s := range live {
			vc.emit(fmt.Sprintf("(assert (=> %s (= %s %s)))", s.pc.S, nv.S, s.heap[n].S))
		}
		out.heap[n] = nv
	}
	return out
}

// splitAnd splits "(and P C)" (two top-level arguments) into P and C.
func splitAnd(s string) (p, c string, ok bool) {
	if !strings.HasPrefix(s, "(and ") || !strings.HasSuffix(s, ")") {
		return "", "", false
	}
	body := s[5 : len(s)-1]
	depth := 0
	var parts []string
	start := 0
	for i := 0; i < len(body); i++ {
		switch body[i] {
		case '(':
			depth++
		case ')':
			depth--
		case '"':
			// skip string literal
			i++
			for i < len(body) && body[i] != '"' {
				i++
			}
		case ' ':
			if depth == 0 {
				parts = append(parts, body[start:i])
				start = i + 1
			}
		}
	}
	parts = append(parts, body[start:])
	if len(parts) != 2 {
		return "", "", false
	}
	return parts[0], parts[1], true
}

// ---------------------------------------------------------------------------
// obligations

func (vc *VC) assert(st *State, name, kind string, pos token.Pos, src string, goal Term) {
	if vc.discover {
		return
	}
	if goal.S == "true" {
		// still counts as an obligation (trivially discharged)
	}
	o := &Obligation{Name: name, Kind: kind, Src: src, NCmds: len(vc.cmds), PC: st.pc, Goal: goal, vc: vc}
	if pos.IsValid() {
		o.Pos = vc.prog.relFile(pos)
	}
	vc.obls = append(vc.obls, o)
}

func (vc *VC) cover(st *State, name string, pos token.Pos) {
	if vc.discover || st == nil {
		return
	}
	o := &Obligation{Name: name, Kind: "cover", NCmds: len(vc.cmds), PC: st.pc, Goal: TFalse, vc: vc, Cover: true}
	if pos.IsValid() {
		o.Pos = vc.prog.relFile(pos)
	}
	vc.obls = append(vc.obls, o)
}

const preamble = `(set-option :produce-models true)
(set-logic ALL)
(declare-datatypes ((Slc 0)) (((mkslc (sbase Int) (soff Int) (slen Int)))))
(declare-sort F64 0)
(declare-const f64zero F64)
(define-fun gdiv ((a Int) (b Int)) Int (ite (>= a 0) (ite (> b 0) (div a b) (- (div a (- b)))) (ite (> b 0) (- (div (- a) b)) (div (- a) (- b)))))
(define-fun gmod ((a Int) (b Int)) Int (- a (* b (gdiv a b))))
(define-fun imin ((a Int) (b Int)) Int (ite (<= a b) a b))
(define-fun imax ((a Int) (b Int)) Int (ite (>= a b) a b))
(declare-fun errIs (Int Int) Bool)
(assert (forall ((e Int)) (! (=> (not (= e 0)) (errIs e e)) :pattern ((errIs e e)))))
(assert (forall ((t Int)) (! (=> (not (= t 0)) (not (errIs 0 t))) :pattern ((errIs 0 t)))))
`

// tagHyp names a hypothesis (an assumed invariant) by a fresh Boolean whose definition is a tagged
// command; a sliced query may leave such definitions out, which only weakens the hypotheses.
func (vc *VC) tagHyp(label string, t Term) Term {
	if t.S == "true" || t.S == "false" {
		return t
	}
	h := vc.fresh("hyp", SBool)
	vc.emit(";@hyp:" + label + "\n(assert (= " + h.S + " " + t.S + "))")
	return h
}

func labelStem(l string) string {
	if i := strings.IndexAny(l, "-"); i > 0 {
		return l[:i]
	}
	return l
}

func (o *Obligation) Query() string { return o.QuerySliced("") }

// QuerySliced: with keep != "", quantified tagged hypotheses whose label stem differs from keep
// are dropped (sound: fewer assumptions).
func (o *Obligation) QuerySliced(keep string) string {
	if o.RawQuery != "" {
		return o.RawQuery
	}
	if o.Static || o.vc == nil {
		return "; decided without an SMT query: " + o.Src + "\n"
	}
	var b strings.Builder
	b.WriteString(preamble)
	// floating-point literals are uninterpreted constants of sort F64, pairwise distinct
	// (f64c_0 is the zero value); no arithmetic is modelled
	{
		seen := map[string]bool{}
		var fc []string
		scan := func(s string) {
			for _, m := range f64constRe.FindAllString(s, -1) {
				if !seen[m] {
					seen[m] = true
					fc = append(fc, m)
				}
			}
		}
		for _, c := range o.vc.cmds[:o.NCmds] {
			scan(c)
		}
		scan(o.PC.S)
		scan(o.Goal.S)
		sort.Strings(fc)
		for _, m := range fc {
			b.WriteString("(declare-const " + m + " F64)\n")
			if m == "f64c_0" {
				b.WriteString("(assert (= f64c_0 f64zero))\n")
			}
		}
		if len(fc) > 1 {
			b.WriteString("(assert (distinct " + strings.Join(fc, " ") + "))\n")
		}
	}
	for _, c := range o.vc.cmds[:o.NCmds] {
		if keep != "" && strings.HasPrefix(c, ";@hyp:") {
			nl := strings.Index(c, "\n")
			lbl := c[6:nl]
			if labelStem(lbl) != labelStem(keep) && (strings.Contains(c, "(forall ") || strings.Contains(c, "(exists ")) {
				continue
			}
		}
		b.WriteString(c)
		b.WriteByte('\n')
	}
	b.WriteString("(assert " + o.PC.S + ")\n")
	if !o.Cover {
		b.WriteString("(assert (not " + o.Goal.S + "))\n")
	}
	b.WriteString("(check-sat)\n(get-model)\n")
	return b.String()
}
