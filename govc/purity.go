package main

// Inferred heap purity: an uncontracted rqlite function whose body (transitively, through
// static callees whose bodies are loaded) performs no caller-visible heap write is treated at
// call sites as leaving the heap unchanged. The analysis is syntactic and conservative.

import (
	"go/ast"
	"go/token"
	"go/types"
)

func (p *Prog) inferHeapPure() {
	p.HeapPure = map[string]bool{}
	impure := map[string]bool{}
	deps := map[string][]string{}
	for k, fi := range p.Funcs {
		if p.DB.Funcs[k] != nil {
			continue // contracted: the contract decides
		}
		info := fi.Pkg.TypesInfo
		localStruct := func(e ast.Expr) bool {
			// x.f = v where x is a local variable of struct (value) type
			se, ok := ast.Unparen(e).(*ast.SelectorExpr)
			if !ok {
				return false
			}
			id, ok := ast.Unparen(se.X).(*ast.Ident)
			if !ok {
				return false
			}
			o, ok := info.ObjectOf(id).(*types.Var)
			if !ok || o.IsField() || o.Pkg() == nil || o.Parent() == o.Pkg().Scope() {
				return false
			}
			return isStructVal(o.Type()) && fi.Decl.Body.Pos() <= o.Pos() && o.Pos() <= fi.Decl.Body.End()
		}
		bad := false
		mark := func(e ast.Expr) {
			switch l := ast.Unparen(e).(type) {
			case *ast.Ident:
				if o, ok := info.ObjectOf(l).(*types.Var); ok && o.Pkg() != nil && o.Parent() == o.Pkg().Scope() {
					bad = true // package-level variable
				}
			case *ast.SelectorExpr:
				if !localStruct(l) {
					bad = true
				}
			default:
				bad = true
			}
		}
		ast.Inspect(fi.Decl.Body, func(n ast.Node) bool {
			if bad {
				return false
			}
			switch x := n.(type) {
			case *ast.AssignStmt:
				for _, l := range x.Lhs {
					mark(l)
				}
			case *ast.IncDecStmt:
				mark(x.X)
			case *ast.GoStmt, *ast.SendStmt, *ast.DeferStmt:
				if d, ok := x.(*ast.DeferStmt); ok {
					_ = d // deferred calls are inspected as calls below
				} else {
					bad = true
				}
			case *ast.UnaryExpr:
				if x.Op == token.ARROW {
					bad = true // channel receive: synchronisation with other code
				}
			case *ast.RangeStmt:
				if x.Tok == token.ASSIGN {
					if x.Key != nil {
						mark(x.Key)
					}
					if x.Value != nil {
						mark(x.Value)
					}
				}
			case *ast.CallExpr:
				if tv, ok := info.Types[x.Fun]; ok && tv.IsType() {
					return true
				}
				if id, ok := ast.Unparen(x.Fun).(*ast.Ident); ok {
					if b, ok := info.Uses[id].(*types.Builtin); ok {
						switch b.Name() {
						case "copy", "delete", "clear", "close":
							bad = true
						}
						return true
					}
				}
				fn := staticCallee(info, x)
				if fn == nil {
					if _, ok := ast.Unparen(x.Fun).(*ast.FuncLit); ok {
						return true // immediately invoked literal: body inspected inline
					}
					bad = true
					return false
				}
				key := funcKey(fn)
				pkg := ""
				if fn.Pkg() != nil {
					pkg = fn.Pkg().Path()
				}
				switch {
				case isObservability(key, fn):
				case p.DB.Funcs[key] != nil:
					c := p.DB.Funcs[key]
					if !(c.Pure || c.NoHeap || (c.HasAssigns && !hasStar(c) && onlyGhostAssigns(p, c))) {
						bad = true
					}
				case p.Funcs[key] != nil:
					deps[k] = append(deps[k], key)
				case isRqlitePkg(pkg):
					bad = true
				case pkg == "sync/atomic":
					// atomic cells are not part of the modelled heap: every load yields an arbitrary value
				default:
					if !noHeapPkgs[pkg] || isInterface(recvTypeOf(fn)) {
						bad = true
					}
					// arguments that are pointers to rqlite objects may be written by the library
					for _, a := range x.Args {
						if t := info.Types[a].Type; t != nil {
							if _, isPtr := types.Unalias(t).Underlying().(*types.Pointer); isPtr {
								bad = true
							}
							if isInterface(t) && !isErrorType(t) {
								bad = true
							}
						}
					}
				}
			}
			return true
		})
		if bad {
			impure[k] = true
		}
	}
	changed := true
	for changed {
		changed = false
		for k, ds := range deps {
			if impure[k] {
				continue
			}
			for _, d := range ds {
				if impure[d] {
					impure[k] = true
					changed = true
					break
				}
			}
		}
	}
	for k := range p.Funcs {
		if p.DB.Funcs[k] == nil && !impure[k] {
			p.HeapPure[k] = true
		}
	}
}

func hasStar(c *FuncContract) bool {
	for _, a := range c.Assigns {
		if a == "*" || a == "**" {
			return true
		}
	}
	return false
}

func onlyGhostAssigns(p *Prog, c *FuncContract) bool {
	for _, a := range c.Assigns {
		if _, ok := p.DB.Ghosts[a]; !ok {
			return false
		}
	}
	return true
}

func recvTypeOf(fn *types.Func) types.Type {
	if sig, ok := fn.Type().(*types.Signature); ok && sig.Recv() != nil {
		return sig.Recv().Type()
	}
	return nil
}

// isProtoMsgPtr: *T where T is a struct of an rqlite protobuf package (…/proto).
func isProtoMsgPtr(t types.Type) bool {
	if t == nil {
		return false
	}
	p, ok := types.Unalias(t).Underlying().(*types.Pointer)
	if !ok {
		return false
	}
	n, ok := types.Unalias(p.Elem()).(*types.Named)
	if !ok || n.Obj().Pkg() == nil {
		return false
	}
	path := n.Obj().Pkg().Path()
	return isRqlitePkg(path) && len(path) > 6 && path[len(path)-6:] == "/proto"
}
