package main

// Extra obligation generator: inclusion of a specified language in the language of a substring
// pre-filter of the real code (strings.Contains(stmt, target) over a literal target list).
//
//	guardsubstr <pkgpath> <Func> <var>     the []string{...} literal assigned to <var> inside <Func>
//	                                       (several guardsubstr lines: union)
//	lang <name> = <go regexp>              specification language (full match)
//
// One obligation per lang: L(lang) ⊆ { s | some target is a substring of s }.

import (
	"fmt"
	"go/ast"
	"go/constant"
	"os"
	"sort"
	"strings"
)

func substrInclusion(p *Prog, file string) ([]*Obligation, []string) {
	b, err := os.ReadFile(file)
	if err != nil {
		return nil, []string{err.Error()}
	}
	var errs []string
	var targets []string
	var guardNames []string
	type lang struct{ name, pat string }
	var langs []lang
	for _, line := range strings.Split(string(b), "\n") {
		t := strings.TrimSpace(strings.TrimRight(line, "\r"))
		if t == "" || strings.HasPrefix(t, "#") {
			continue
		}
		switch {
		case strings.HasPrefix(t, "guardsubstr "):
			f := strings.Fields(t)
			if len(f) != 4 {
				errs = append(errs, "bad guardsubstr line: "+t)
				continue
			}
			lits, err := extractStringSliceInFunc(p, normKey(f[1]), f[2], f[3])
			if err != nil {
				errs = append(errs, err.Error())
				continue
			}
			targets = append(targets, lits...)
			guardNames = append(guardNames, f[2])
		case strings.HasPrefix(t, "lang "):
			r := strings.TrimPrefix(t, "lang ")
			i := strings.Index(r, "=")
			if i < 0 {
				errs = append(errs, "bad lang line: "+t)
				continue
			}
			langs = append(langs, lang{strings.TrimSpace(r[:i]), strings.TrimSpace(r[i+1:])})
		default:
			errs = append(errs, "unknown line in "+file+": "+t)
		}
	}
	if len(targets) == 0 {
		errs = append(errs, "no substring targets extracted for "+file)
		return nil, errs
	}
	sort.Strings(targets)
	var alts []string
	for _, tg := range targets {
		alts = append(alts, "(str.to_re "+smtStr(tg)+")")
	}
	guard := alts[0]
	if len(alts) > 1 {
		guard = "(re.union " + strings.Join(alts, " ") + ")"
	}
	guard = "(re.++ re.all " + guard + " re.all)"
	gname := strings.Join(guardNames, "|")
	var obls []*Obligation
	for _, l := range langs {
		ls, err := goRegexLanguage(l.pat, true)
		if err != nil {
			errs = append(errs, "lang "+l.name+": "+err.Error())
			continue
		}
		q := "(set-option :produce-models true)\n(set-logic ALL)\n(declare-const x String)\n" +
			"(assert (str.in_re x " + ls + "))\n(assert (not (str.in_re x " + guard + ")))\n(check-sat)\n(get-model)\n"
		obls = append(obls, &Obligation{
			Name: gname + "#incl[" + l.name + "]", Kind: "language-inclusion", Src: "L(" + l.pat + ") ⊆ contains-one-of " + fmt.Sprintf("%q", targets),
			RawQuery: q, PC: TTrue, Goal: Term{"(str.in_re x guard)", SBool}, Pos: file,
		})
	}
	return obls, errs
}

// extractStringSliceInFunc returns the string literals of the composite literal assigned to the
// local variable name inside function fn of package pkgPath (real code, current tree).
func extractStringSliceInFunc(p *Prog, pkgPath, fn, name string) ([]string, error) {
	pk := p.Pkgs[pkgPath]
	if pk == nil {
		return nil, fmt.Errorf("package %s not loaded", pkgPath)
	}
	var lits []string
	found := false
	for _, f := range pk.Syntax {
		for _, d := range f.Decls {
			fd, ok := d.(*ast.FuncDecl)
			if !ok || fd.Name.Name != fn || fd.Body == nil || fd.Recv != nil {
				continue
			}
			ast.Inspect(fd.Body, func(n ast.Node) bool {
				as, ok := n.(*ast.AssignStmt)
				if !ok || len(as.Lhs) != 1 || len(as.Rhs) != 1 {
					return true
				}
				id, ok := as.Lhs[0].(*ast.Ident)
				if !ok || id.Name != name {
					return true
				}
				cl, ok := ast.Unparen(as.Rhs[0]).(*ast.CompositeLit)
				if !ok {
					return true
				}
				found = true
				for _, e := range cl.Elts {
					if tv, ok := pk.TypesInfo.Types[e]; ok && tv.Value != nil && tv.Value.Kind() == constant.String {
						lits = append(lits, constant.StringVal(tv.Value))
					}
				}
				return true
			})
		}
	}
	if !found || len(lits) == 0 {
		return nil, fmt.Errorf("no []string literal %s found in %s.%s", name, pkgPath, fn)
	}
	return lits, nil
}
