package main

// Evaluation of spec expressions into SMT terms.

import (
	"fmt"
	"go/ast"
	"go/token"
	"go/types"
	"strings"
)

type Val struct {
	T   Term
	GoT types.Type
}

type SpecEnv struct {
	vc        *VC
	st        *State
	old       *State
	names     map[string]Val
	pkg       *types.Package
	scopePos  token.Pos
	useLocals bool
	callArgs  []ast.Expr
	depth     int
	pre       *State
}

type pkgMarker struct{ pkg *types.Package }

func (env *SpecEnv) with(names map[string]Val) *SpecEnv {
	n := *env
	n.names = map[string]Val{}
	for k, v := range env.names {
		n.names[k] = v
	}
	for k, v := range names {
		n.names[k] = v
	}
	return &n
}

func (vc *VC) specEvalBool(env *SpecEnv, e SExpr) Term {
	v := vc.specEval(env, e)
	if v.T.Sort != SBool {
		vc.fail("spec expression is not boolean: %s (sort %s)", specString(e), v.T.Sort)
		return TFalse
	}
	return v.T
}

// specClause evaluates a clause of the function under verification in state st.
func (vc *VC) specClause(st, old *State, c *Clause, extra map[string]Term, pos token.Pos) Term {
	env := vc.topEnv(st, old, pos)
	for k, v := range extra {
		env.names[k] = Val{v, nil}
	}
	return vc.specEvalBool(env, c.Expr)
}

func (vc *VC) topEnv(st, old *State, pos token.Pos) *SpecEnv {
	fr := vc.frames[0]
	names := map[string]Val{}
	// results
	for i, o := range fr.results {
		if v, ok := st.vars[o]; ok {
			val := v
			if vc.isBoxed(o) {
				srt := sortOfType(o.Type())
				val = Select(vc.heapGet(st, "Box$"+sortKey(srt), arrSort(SInt, srt)), v)
			}
			names[fmt.Sprintf("result%d", i)] = Val{val, o.Type()}
			if i == 0 {
				names["result"] = Val{val, o.Type()}
			}
		}
	}
	if fr.recv != nil {
		if v, ok := st.vars[fr.recv]; ok {
			names["self"] = Val{v, fr.recv.Type()}
		}
	}
	return &SpecEnv{vc: vc, st: st, old: old, names: names, pkg: vc.fn.Pkg.Types, scopePos: pos, useLocals: true}
}

func (vc *VC) assertClause(st, old *State, c *Clause, name, kind string, pos token.Pos, extra map[string]Term) {
	if vc.discover {
		vc.specClause(st, old, c, extra, pos)
		return
	}
	g := vc.specClause(st, old, c, extra, pos)
	vc.assert(st, name, kind, pos, c.Src, g)
	if n := len(vc.obls); n > 0 && vc.obls[n-1].Name == name {
		vc.obls[n-1].Label = c.Label
	}
}

func specString(e SExpr) string {
	switch e := e.(type) {
	case *SIdent:
		return e.Name
	case *SLit:
		if e.Kind == "string" {
			return fmt.Sprintf("%q", e.Val)
		}
		return e.Val
	case *SBin:
		return "(" + specString(e.L) + " " + e.Op + " " + specString(e.R) + ")"
	case *SUn:
		return e.Op + specString(e.X)
	case *SSel:
		return specString(e.X) + "." + e.Name
	case *SIndex:
		return specString(e.X) + "[" + specString(e.I) + "]"
	case *SSlice:
		return specString(e.X) + "[:]"
	case *SCall:
		var as []string
		for _, a := range e.Args {
			as = append(as, specString(a))
		}
		return specString(e.Fun) + "(" + strings.Join(as, ", ") + ")"
	case *SQuant:
		q := "exists"
		if e.Forall {
			q = "forall"
		}
		return q + " … :: " + specString(e.Body)
	}
	return "?"
}

func (vc *VC) lookupLocal(env *SpecEnv, name string) (types.Object, bool) {
	if !env.useLocals {
		return nil, false
	}
	// search variables in the current state by name, preferring the innermost scope at scopePos
	fi := vc.fn
	if env.scopePos.IsValid() {
		if sc := fi.Pkg.Types.Scope().Innermost(env.scopePos); sc != nil {
			if _, o := sc.LookupParent(name, env.scopePos); o != nil {
				if _, ok := env.st.vars[o]; ok {
					return o, true
				}
				if v, ok := o.(*types.Var); ok && o.Parent() == o.Pkg().Scope() {
					return v, true
				}
				if _, ok := o.(*types.Const); ok {
					return o, true
				}
			}
		}
	}
	// fall back: any variable with that name in the state (unique)
	var found types.Object
	for o := range env.st.vars {
		if o.Name() == name && o.Pos().IsValid() {
			if found != nil && found != o {
				// ambiguous: prefer the one declared last before scopePos
				if o.Pos() > found.Pos() {
					found = o
				}
				continue
			}
			found = o
		}
	}
	if found != nil {
		return found, true
	}
	return nil, false
}

func (vc *VC) specEval(env *SpecEnv, e SExpr) Val {
	if vc.safe {
		// specification expressions generate no run-time safety obligations
		vc.safe = false
		defer func() { vc.safe = true }()
	}
	switch e := e.(type) {
	case *SLit:
		if e.Kind == "string" {
			return Val{StrLit(e.Val), types.Typ[types.String]}
		}
		if strings.HasPrefix(e.Val, "0x") {
			var n int64
			fmt.Sscanf(e.Val, "0x%x", &n)
			return Val{IntLit(n), types.Typ[types.Int]}
		}
		return Val{BigLit(e.Val), types.Typ[types.Int]}
	case *SIdent:
		return vc.specIdent(env, e.Name)
	case *SUn:
		x := vc.specEval(env, e.X)
		if e.Op == "!" {
			return Val{Not(x.T), types.Typ[types.Bool]}
		}
		return Val{app(SInt, "-", x.T), x.GoT}
	case *SBin:
		return vc.specBin(env, e)
	case *SSel:
		return vc.specSel(env, e)
	case *SIndex:
		x := vc.specEval(env, e.X)
		i := vc.specEval(env, e.I)
		if x.GoT != nil {
			switch u := types.Unalias(x.GoT).Underlying().(type) {
			case *types.Map:
				v, _ := vc.mapLookup(env.st, x.T, i.T, sortOfType(u.Elem()))
				return Val{v, u.Elem()}
			case *types.Slice:
				return Val{vc.sliceIndex(env.st, x.T, i.T, sortOfType(u.Elem())), u.Elem()}
			case *types.Array:
				return Val{vc.sliceIndex(env.st, x.T, i.T, sortOfType(u.Elem())), u.Elem()}
			}
		}
		if _, _, ok := arrParts(x.T.Sort); ok {
			return Val{Select(x.T, i.T), nil}
		}
		if x.T.Sort == SStr {
			return Val{app(SInt, "str.to_code", app(SStr, "str.at", x.T, i.T)), types.Typ[types.Byte]}
		}
		if x.T.Sort == SSlc {
			return Val{vc.sliceIndex(env.st, x.T, i.T, SInt), nil}
		}
		vc.fail("spec: cannot index %s", specString(e.X))
		return Val{IntLit(0), nil}
	case *SSlice:
		x := vc.specEval(env, e.X)
		lo := IntLit(0)
		if e.Lo != nil {
			lo = vc.specEval(env, e.Lo).T
		}
		if x.T.Sort == SStr {
			hi := app(SInt, "str.len", x.T)
			if e.Hi != nil {
				hi = vc.specEval(env, e.Hi).T
			}
			return Val{app(SStr, "str.substr", x.T, lo, app(SInt, "-", hi, lo)), x.GoT}
		}
		hi := slen(x.T)
		if e.Hi != nil {
			hi = vc.specEval(env, e.Hi).T
		}
		return Val{Term{fmt.Sprintf("(mkslc %s %s %s)", sbase(x.T).S, add(soff(x.T), lo).S, app(SInt, "-", hi, lo).S), SSlc}, x.GoT}
	case *SQuant:
		names := map[string]Val{}
		var binders []string
		for _, v := range e.Vars {
			srt := specSort(v.Type)
			vn := fmt.Sprintf("q$%s$%d", v.Name, env.depth)
			names[v.Name] = Val{Term{vn, srt}, specGoType(v.Type)}
			binders = append(binders, fmt.Sprintf("(%s %s)", vn, srt))
		}
		sub := env.with(names)
		sub.depth = env.depth + 1
		// evaluation inside a quantifier must not change the state
		body := vc.specEvalBool(sub, e.Body)
		q := "exists"
		if e.Forall {
			q = "forall"
		}
		return Val{Term{fmt.Sprintf("(%s (%s) %s)", q, strings.Join(binders, " "), body.S), SBool}, types.Typ[types.Bool]}
	case *SCall:
		return vc.specCall(env, e)
	}
	vc.fail("spec: unsupported expression %T", e)
	return Val{IntLit(0), nil}
}

func specGoType(t string) types.Type {
	switch strings.TrimSpace(t) {
	case "int":
		return types.Typ[types.Int]
	case "string":
		return types.Typ[types.String]
	case "bool":
		return types.Typ[types.Bool]
	case "uint64":
		return types.Typ[types.Uint64]
	case "int64":
		return types.Typ[types.Int64]
	}
	return nil
}

func (vc *VC) specIdent(env *SpecEnv, name string) Val {
	if v, ok := env.names[name]; ok {
		return v
	}
	switch name {
	case "true":
		return Val{TTrue, types.Typ[types.Bool]}
	case "false":
		return Val{TFalse, types.Typ[types.Bool]}
	case "nil":
		return Val{IntLit(0), nil}
	case "nilslice":
		return Val{zeroOfSort(SSlc), nil}
	}
	if strings.HasPrefix(name, "arg") && env.callArgs != nil {
		var i int
		if _, err := fmt.Sscanf(name, "arg%d", &i); err == nil && i < len(env.callArgs) {
			if vc.argTerms != nil && i < len(vc.argTerms) && exprHasCall(env.callArgs[i]) && vc.argTerms[i].Sort == sortOfType(vc.typeOf(env.callArgs[i])) {
				// the argument is itself a call: use the value it produced, do not call again
				return Val{vc.argTerms[i], vc.typeOf(env.callArgs[i])}
			}
			saved := *env.st
			v := vc.eval(env.st, env.callArgs[i])
			*env.st = saved
			return Val{v, vc.typeOf(env.callArgs[i])}
		}
	}
	// function-level ghost
	if vc.contract != nil {
		for _, g := range vc.contract.GhostVars {
			if g.Name == name {
				return Val{vc.heapGet(env.st, "gl$"+name, specSort(g.Type)), nil}
			}
		}
	}
	if g, ok := vc.prog.DB.Ghosts[name]; ok {
		return Val{vc.heapGet(env.st, "ghost$"+name, specSort(g.Type)), nil}
	}
	if c, ok := vc.prog.DB.Consts[name]; ok {
		return vc.specEval(env, c)
	}
	if o, ok := vc.lookupLocal(env, name); ok {
		switch o := o.(type) {
		case *types.Var:
			return Val{vc.readVar(env.st, o), o.Type()}
		case *types.Const:
			if t, ok := constTerm(o.Val(), o.Type()); ok {
				return Val{t, o.Type()}
			}
		}
	}
	if name == "_slack" {
		vc.ensureSlack()
		return Val{Term{"time$slack", SInt}, nil}
	}
	if name == "_now" {
		return Val{vc.heapGetDefault(env.st, "gl$$now", vc.initialNow()), nil}
	}
	// package-level
	if env.pkg != nil {
		if o := env.pkg.Scope().Lookup(name); o != nil {
			switch o := o.(type) {
			case *types.Var:
				return Val{vc.readVar(env.st, o), o.Type()}
			case *types.Const:
				if t, ok := constTerm(o.Val(), o.Type()); ok {
					return Val{t, o.Type()}
				}
			}
		}
		for _, imp := range env.pkg.Imports() {
			if imp.Name() == name {
				return Val{Term{"pkg:" + imp.Path(), "pkg"}, nil}
			}
		}
	}
	// any loaded package by name
	for path, p := range vc.prog.Pkgs {
		if p.Types.Name() == name {
			return Val{Term{"pkg:" + path, "pkg"}, nil}
		}
		for _, imp := range p.Types.Imports() {
			if imp.Name() == name {
				return Val{Term{"pkg:" + imp.Path(), "pkg"}, nil}
			}
		}
	}
	vc.fail("spec: unknown identifier %q (function %s)", name, vc.fn.Key)
	return Val{IntLit(0), nil}
}

func (vc *VC) findPkg(path string) *types.Package {
	if p, ok := vc.prog.Pkgs[path]; ok {
		return p.Types
	}
	for _, p := range vc.prog.Pkgs {
		for _, imp := range p.Types.Imports() {
			if imp.Path() == path {
				return imp
			}
		}
	}
	return nil
}

func (vc *VC) specSel(env *SpecEnv, e *SSel) Val {
	x := vc.specEval(env, e.X)
	if x.T.Sort == "pkg" {
		p := vc.findPkg(strings.TrimPrefix(x.T.S, "pkg:"))
		if p != nil {
			if o := p.Scope().Lookup(e.Name); o != nil {
				switch o := o.(type) {
				case *types.Var:
					return Val{vc.readVar(env.st, o), o.Type()}
				case *types.Const:
					if t, ok := constTerm(o.Val(), o.Type()); ok {
						return Val{t, o.Type()}
					}
				}
			}
		}
		vc.fail("spec: unknown %s.%s", x.T.S, e.Name)
		return Val{IntLit(0), nil}
	}
	if x.GoT == nil {
		vc.fail("spec: selector .%s on value without Go type (%s)", e.Name, specString(e.X))
		return Val{IntLit(0), nil}
	}
	// field (with embedding)
	obj, path, _ := types.LookupFieldOrMethod(x.GoT, true, nil, e.Name)
	if obj == nil {
		// unexported field from another package: search manually
		if s := structOf(x.GoT); s != nil {
			for i := 0; i < s.NumFields(); i++ {
				if s.Field(i).Name() == e.Name {
					obj, path = s.Field(i), []int{i}
				}
			}
		}
	}
	if f, ok := obj.(*types.Var); ok && f.IsField() {
		vc.inSpec++
		v := vc.selectPath(env.st, x.T, x.GoT, path)
		vc.inSpec--
		return Val{v, f.Type()}
	}
	vc.fail("spec: no field %s in %s", e.Name, x.GoT)
	return Val{IntLit(0), nil}
}

func (vc *VC) specBin(env *SpecEnv, e *SBin) Val {
	tb := types.Typ[types.Bool]
	switch e.Op {
	case "&&":
		l := vc.specEvalBool(env, e.L)
		// evaluate the right side under the left (no state effects in specs)
		r := vc.specEvalBool(env, e.R)
		return Val{And(l, r), tb}
	case "||":
		return Val{Or(vc.specEvalBool(env, e.L), vc.specEvalBool(env, e.R)), tb}
	case "==>":
		return Val{Implies(vc.specEvalBool(env, e.L), vc.specEvalBool(env, e.R)), tb}
	case "<==>":
		return Val{Eq(vc.specEvalBool(env, e.L), vc.specEvalBool(env, e.R)), tb}
	case "in":
		k := vc.specEval(env, e.L)
		m := vc.specEval(env, e.R)
		if m.GoT != nil {
			if mt, ok := types.Unalias(m.GoT).Underlying().(*types.Map); ok {
				_, ok := vc.mapLookup(env.st, m.T, k.T, sortOfType(mt.Elem()))
				return Val{ok, tb}
			}
		}
		if _, v, ok := arrParts(m.T.Sort); ok && v == SBool {
			return Val{Select(m.T, k.T), tb}
		}
		vc.fail("spec: 'in' on non-map %s", specString(e.R))
		return Val{TFalse, tb}
	}
	l := vc.specEval(env, e.L)
	r := vc.specEval(env, e.R)
	// nil against slices
	if l.T.Sort == SSlc && r.T.Sort == SInt && r.T.S == "0" {
		r.T = zeroOfSort(SSlc)
	}
	if r.T.Sort == SSlc && l.T.Sort == SInt && l.T.S == "0" {
		l.T = zeroOfSort(SSlc)
	}
	var op token.Token
	switch e.Op {
	case "==":
		op = token.EQL
	case "!=":
		op = token.NEQ
	case "<":
		op = token.LSS
	case "<=":
		op = token.LEQ
	case ">":
		op = token.GTR
	case ">=":
		op = token.GEQ
	case "+":
		op = token.ADD
	case "-":
		op = token.SUB
	case "*":
		op = token.MUL
	case "/":
		op = token.QUO
	case "%":
		op = token.REM
	}
	if l.T.Sort != r.T.Sort {
		vc.fail("spec: sort mismatch in %s: %s vs %s", specString(e), l.T.Sort, r.T.Sort)
		return Val{TFalse, tb}
	}
	if l.T.Sort == SSlc && (e.Op == "==" || e.Op == "!=") && l.T.S != "(mkslc 0 0 0)" && r.T.S != "(mkslc 0 0 0)" {
		// in specs, slice equality is equality of the slice headers (same backing array and range)
		t := Eq(l.T, r.T)
		if e.Op == "!=" {
			t = Not(t)
		}
		return Val{t, tb}
	}
	saveSafe := vc.safe
	vc.safe = false
	t := vc.binop(env.st, op, l.T, r.T, l.GoT, nil)
	vc.safe = saveSafe
	gt := l.GoT
	if t.Sort == SBool {
		gt = tb
	}
	return Val{t, gt}
}

func (vc *VC) specCall(env *SpecEnv, e *SCall) Val {
	tb := types.Typ[types.Bool]
	ti := types.Typ[types.Int]
	if id, ok := e.Fun.(*SIdent); ok {
		switch id.Name {
		case "old":
			sub := *env
			sub.st = env.old
			return vc.specEval(&sub, e.Args[0])
		case "len":
			x := vc.specEval(env, e.Args[0])
			switch x.T.Sort {
			case SSlc:
				return Val{slen(x.T), ti}
			case SStr:
				return Val{app(SInt, "str.len", x.T), ti}
			}
			if x.GoT != nil {
				if m, ok := types.Unalias(x.GoT).Underlying().(*types.Map); ok {
					ks, vs := sortOfType(m.Key()), sortOfType(m.Elem())
					return Val{vc.uf("maplen_"+sortKey(ks), SInt, Select(vc.mapDom(env.st, ks, vs), x.T)), ti}
				}
			}
			vc.fail("spec: len of %s", specString(e.Args[0]))
			return Val{IntLit(0), ti}
		case "disjoint":
			// disjoint(a, b): the two slices have different backing arrays
			a, b := vc.specEval(env, e.Args[0]), vc.specEval(env, e.Args[1])
			if a.T.Sort != SSlc || b.T.Sort != SSlc {
				vc.fail("spec: disjoint of non-slices")
				return Val{TTrue, nil}
			}
			return Val{Not(Eq(sbase(a.T), sbase(b.T))), types.Typ[types.Bool]}
		case "min", "max":
			a, b := vc.specEval(env, e.Args[0]), vc.specEval(env, e.Args[1])
			return Val{app(SInt, "i"+id.Name, a.T, b.T), a.GoT}
		case "ite":
			c := vc.specEvalBool(env, e.Args[0])
			a, b := vc.specEval(env, e.Args[1]), vc.specEval(env, e.Args[2])
			return Val{Ite(c, a.T, b.T), a.GoT}
		case "update":
			m, k, v := vc.specEval(env, e.Args[0]), vc.specEval(env, e.Args[1]), vc.specEval(env, e.Args[2])
			return Val{Store(m.T, k.T, v.T), m.GoT}
		case "empty":
			// empty("map[string]bool"): the all-default value of a spec sort
			if lit, ok := e.Args[0].(*SLit); ok {
				return Val{zeroOfSort(specSort(lit.Val)), nil}
			}
			vc.fail("spec: empty(\"type\") needs a string literal")
			return Val{IntLit(0), nil}
		case "isErr":
			// errors.Is(err, target)
			a, b := vc.specEval(env, e.Args[0]), vc.specEval(env, e.Args[1])
			return Val{Term{fmt.Sprintf("(errIs %s %s)", a.T.S, b.T.S), SBool}, tb}
		case "hasPrefix":
			a, b := vc.specEval(env, e.Args[0]), vc.specEval(env, e.Args[1])
			return Val{app(SBool, "str.prefixof", b.T, a.T), tb}
		case "hasSuffix":
			a, b := vc.specEval(env, e.Args[0]), vc.specEval(env, e.Args[1])
			return Val{app(SBool, "str.suffixof", b.T, a.T), tb}
		case "contains":
			a, b := vc.specEval(env, e.Args[0]), vc.specEval(env, e.Args[1])
			return Val{app(SBool, "str.contains", a.T, b.T), tb}
		case "lower":
			a := vc.specEval(env, e.Args[0])
			return Val{vc.uf("str_lower", SStr, a.T), a.GoT}
		case "pre":
			sub := *env
			if env.pre != nil {
				sub.st = env.pre
			}
			return vc.specEval(&sub, e.Args[0])
		case "as":
			// as(x, "*pkg/path.Type"): the interface value x viewed as a value of that dynamic type
			// (meaningful where typeis(x, "*pkg/path.Type") holds); gives access to its fields
			x := vc.specEval(env, e.Args[0])
			if lit, ok := e.Args[1].(*SLit); ok {
				ts := normKey(lit.Val)
				ptr := strings.HasPrefix(ts, "*")
				ts = strings.TrimPrefix(ts, "*")
				if i := strings.LastIndex(ts, "."); i > 0 {
					var tp *types.Package
					if pk := vc.prog.Pkgs[ts[:i]]; pk != nil {
						tp = pk.Types
					} else {
						// a dependency of a loaded package (export data)
						for _, pk := range vc.prog.Pkgs {
							if imp := pk.Imports[ts[:i]]; imp != nil && imp.Types != nil {
								tp = imp.Types
								break
							}
						}
					}
					if tp != nil {
						if o := tp.Scope().Lookup(ts[i+1:]); o != nil {
							var t types.Type = o.Type()
							if ptr {
								t = types.NewPointer(t)
							}
							return Val{x.T, t}
						}
					}
				}
				vc.fail("spec: as(): type %s not found in the loaded packages", lit.Val)
			}
			return Val{x.T, nil}
		case "unbox":
			// unbox(x, "int64" | "int" | "float64" | "bool" | "string" | "[]byte"): the value held by
			// the interface value x (meaningful where typeis(x, that type) holds)
			x := vc.specEval(env, e.Args[0])
			if lit, ok := e.Args[1].(*SLit); ok {
				var t types.Type
				switch lit.Val {
				case "int64":
					t = types.Typ[types.Int64]
				case "int":
					t = types.Typ[types.Int]
				case "float64":
					t = types.Typ[types.Float64]
				case "bool":
					t = types.Typ[types.Bool]
				case "string":
					t = types.Typ[types.String]
				case "[]byte":
					t = types.NewSlice(types.Universe.Lookup("byte").Type())
				}
				if t != nil {
					return Val{vc.unboxAs(env.st, x.T, nil, t), t}
				}
			}
			vc.fail("spec: unbox(x, \"basic type\") needs a basic type name")
			return Val{IntLit(0), nil}
		case "fresh":
			// fresh(x): the object x refers to (or the backing array of slice x) was allocated by
			// this activation: no caller, callee-retained structure or other thread can reach it
			// unless this activation hands it out
			x := vc.specEval(env, e.Args[0])
			if x.T.Sort == SSlc {
				return Val{app(SBool, ">", sbase(x.T), Term{"alloc$base", SInt}), tb}
			}
			return Val{app(SBool, ">", x.T, Term{"alloc$base", SInt}), tb}
		case "locked":
			// locked("mu"): the monitor mutex field named mu is held by this activation at this point
			if lit, ok := e.Args[0].(*SLit); ok {
				n := "gl$$held$" + lit.Val
				if _, ok := vc.universe[n]; !ok {
					vc.universe[n] = SBool
				}
				if t, ok := env.st.heap[n]; ok {
					return Val{t, tb}
				}
				return Val{TFalse, tb}
			}
			vc.fail("spec: locked(\"mutexField\") needs a string literal")
			return Val{TFalse, tb}
		case "atlock":
			sub := *env
			if vc.lastLock != nil {
				sub.st = vc.lastLock
			} else {
				sub.st = env.old
			}
			return vc.specEval(&sub, e.Args[0])
		case "method":
			x := vc.specEval(env, e.Args[0])
			mname := e.Args[1].(*SLit).Val
			if x.GoT != nil {
				obj, _, _ := types.LookupFieldOrMethod(x.GoT, true, vc.fn.Pkg.Types, mname)
				if fn, ok := obj.(*types.Func); ok {
					return Val{vc.uf("mv$"+sanitize(funcKey(fn)), SInt, x.T), nil}
				}
			}
			vc.fail("spec: method(%s, %q) not found", specString(e.Args[0]), mname)
			return Val{IntLit(0), nil}
		case "typeis":
			// typeis(x, "T") : dynamic type tag check by Go type string
			x := vc.specEval(env, e.Args[0])
			ts := strings.ReplaceAll(e.Args[1].(*SLit).Val, "rq/", modPath+"/")
			vc.ensureDyn()
			tag, ok := typeTags[ts]
			if !ok {
				tag = len(typeTags) + 1
				typeTags[ts] = tag
			}
			return Val{And(Not(Eq(x.T, IntLit(0))), Eq(app(SInt, "dyntype", x.T), IntLit(int64(tag)))), tb}
		}
		if sf, ok := vc.prog.DB.SpecFn[id.Name]; ok {
			if strings.TrimSpace(sf.Src) == "uninterpreted" {
				var args []Term
				for _, a := range e.Args {
					args = append(args, vc.specEval(env, a).T)
				}
				return Val{vc.uf("spec$"+sf.Name, specSort(sf.Ret), args...), specGoType(sf.Ret)}
			}
			if env.depth > 20 {
				vc.fail("spec: macro recursion in %s", id.Name)
				return Val{TFalse, tb}
			}
			names := map[string]Val{}
			for i, p := range sf.Params {
				if i < len(e.Args) {
					names[p.Name] = vc.specEval(env, e.Args[i])
				}
			}
			sub := env.with(names)
			sub.depth = env.depth + 1
			sub.useLocals = false
			v := vc.specEval(sub, sf.Body)
			if v.GoT == nil {
				v.GoT = specGoType(sf.Ret)
			}
			return v
		}
	}
	// method-style calls on values: x.IsZero(), x.GetFoo()
	if sel, ok := e.Fun.(*SSel); ok {
		x := vc.specEval(env, sel.X)
		if x.T.Sort == "pkg" {
			path := strings.TrimPrefix(x.T.S, "pkg:")
			var args []Term
			for _, a := range e.Args {
				args = append(args, vc.specEval(env, a).T)
			}
			switch path + "." + sel.Name {
			case "strings.HasPrefix":
				return Val{app(SBool, "str.prefixof", args[1], args[0]), tb}
			case "strings.HasSuffix":
				return Val{app(SBool, "str.suffixof", args[1], args[0]), tb}
			case "strings.Contains":
				return Val{app(SBool, "str.contains", args[0], args[1]), tb}
			case "strings.ToLower":
				return Val{vc.uf("str_lower", SStr, args[0]), types.Typ[types.String]}
			case "strconv.FormatUint", "strconv.FormatInt":
				return Val{vc.uf("fmtint", SStr, args[0], args[1]), types.Typ[types.String]}
			case "strconv.Itoa":
				return Val{vc.uf("itoa", SStr, args[0]), types.Typ[types.String]}
			case "filepath.Ext", "path/filepath.Ext":
				return Val{vc.uf("pathext", SStr, args[0]), types.Typ[types.String]}
			case "errors.Is":
				return Val{Term{fmt.Sprintf("(errIs %s %s)", args[0].S, args[1].S), SBool}, tb}
			}
			vc.fail("spec: unsupported call %s.%s", path, sel.Name)
			return Val{TFalse, tb}
		}
		if x.GoT != nil {
			if namedIs(x.GoT, "time", "Time") && sel.Name == "IsZero" {
				return Val{Eq(x.T, IntLit(0)), tb}
			}
			// nil-safe getters
			if strings.HasPrefix(sel.Name, "Get") {
				if s := structOf(x.GoT); s != nil {
					fname := strings.TrimPrefix(sel.Name, "Get")
					for i := 0; i < s.NumFields(); i++ {
						if f := s.Field(i); f.Name() == fname {
							v := vc.readField(env.st, x.T, x.GoT, f)
							return Val{Ite(Eq(x.T, IntLit(0)), zeroOfSort(v.Sort), v), f.Type()}
						}
					}
				}
			}
		}
	}
	vc.fail("spec: unsupported call %s", specString(e))
	return Val{TFalse, tb}
}

func exprHasCall(e ast.Expr) bool {
	found := false
	ast.Inspect(e, func(n ast.Node) bool {
		if _, ok := n.(*ast.CallExpr); ok {
			found = true
		}
		return !found
	})
	return found
}
