package main

// Symbolic execution of Go statements.

import (
	"bytes"
	"fmt"
	"go/ast"
	"go/printer"
	"go/token"
	"go/types"
	"sort"
	"strings"
)

func nodeText(fset *token.FileSet, n ast.Node) string {
	var b bytes.Buffer
	printer.Fprint(&b, fset, n)
	return stripWS(b.String())
}

// prepareFrame scans a function body for boxed locals, local closures, defers and loops.
func (vc *VC) prepareFrame(fr *callFrame, body *ast.BlockStmt, numberLoops bool) {
	fr.boxed = map[types.Object]bool{}
	fr.closures = map[types.Object]*ast.FuncLit{}
	fr.deferObj = map[*ast.DeferStmt]*deferInfo{}
	fr.body = body
	if numberLoops {
		fr.loopOrd = map[ast.Stmt]int{}
	}
	info := fr.info
	assignCount := map[types.Object]int{}
	n := 0
	var walk func(node ast.Node, depth int)
	walk = func(node ast.Node, depth int) {
		ast.Inspect(node, func(x ast.Node) bool {
			switch x := x.(type) {
			case *ast.FuncLit:
				if x != node {
					walk(x.Body, depth+1)
					return false
				}
			case *ast.UnaryExpr:
				if x.Op == token.AND {
					if id, ok := ast.Unparen(x.X).(*ast.Ident); ok {
						if o := info.ObjectOf(id); o != nil && !isStructVal(o.Type()) {
							fr.boxed[o] = true
						}
					}
				}
			case *ast.ForStmt:
				if numberLoops {
					n++
					fr.loopOrd[x] = n
				}
			case *ast.RangeStmt:
				if numberLoops {
					n++
					fr.loopOrd[x] = n
				}
			case *ast.DeferStmt:
				if depth == 0 {
					fr.defers = append(fr.defers, x)
				}
			case *ast.AssignStmt:
				for i, l := range x.Lhs {
					if id, ok := l.(*ast.Ident); ok {
						if o := info.ObjectOf(id); o != nil {
							assignCount[o]++
							if len(x.Rhs) == len(x.Lhs) {
								if fl, ok := ast.Unparen(x.Rhs[i]).(*ast.FuncLit); ok {
									fr.closures[o] = fl
								} else {
									assignCount[o] += 10
								}
							}
						}
					}
				}
			case *ast.ValueSpec:
				for i, id := range x.Names {
					if o := info.ObjectOf(id); o != nil && i < len(x.Values) {
						assignCount[o]++
						if fl, ok := ast.Unparen(x.Values[i]).(*ast.FuncLit); ok {
							fr.closures[o] = fl
						}
					} else if o != nil && len(x.Values) == 0 {
						// var f func(); later f = func... counts as one assignment
					}
				}
			}
			return true
		})
	}
	walk(body, 0)
	for o := range fr.closures {
		if assignCount[o] != 1 {
			delete(fr.closures, o)
		}
	}
}

func (vc *VC) execBlock(st *State, list []ast.Stmt) *State {
	for _, s := range list {
		if st == nil {
			return nil
		}
		st = vc.exec(st, s)
	}
	return st
}

func dead(st *State) bool { return st == nil || st.pc.S == "false" }

func (vc *VC) exec(st *State, s ast.Stmt) *State {
	if dead(st) {
		return nil
	}
	switch s := s.(type) {
	case *ast.EmptyStmt:
		return st
	case *ast.BlockStmt:
		return vc.execBlock(st, s.List)
	case *ast.ExprStmt:
		if call, ok := ast.Unparen(s.X).(*ast.CallExpr); ok {
			vc.evalCall(st, call)
		} else {
			vc.eval(st, s.X)
		}
		if dead(st) {
			return nil
		}
		return st
	case *ast.AssignStmt:
		vc.execAssign(st, s)
		if dead(st) {
			return nil
		}
		return st
	case *ast.DeclStmt:
		gd, ok := s.Decl.(*ast.GenDecl)
		if !ok || gd.Tok != token.VAR {
			return st
		}
		for _, sp := range gd.Specs {
			vs := sp.(*ast.ValueSpec)
			if len(vs.Values) == 1 && len(vs.Names) > 1 {
				rs := vc.evalMulti(st, vs.Values[0], len(vs.Names))
				for i, id := range vs.Names {
					if id.Name != "_" {
						vc.declareLocal(st, vc.info().Defs[id], rs[i])
					}
				}
				continue
			}
			for i, id := range vs.Names {
				o := vc.info().Defs[id]
				if o == nil {
					continue
				}
				var v Term
				if i < len(vs.Values) {
					v = vc.convertTo(st, vc.evalCopy(st, vs.Values[i]), vc.typeOf(vs.Values[i]), o.Type())
				} else {
					v = vc.zeroValue(st, o.Type())
				}
				vc.declareLocal(st, o, v)
			}
		}
		return st
	case *ast.IncDecStmt:
		if len(vc.anchoredNodes[s]) > 0 {
			pre := st.clone()
			vc.nodeAnchors(st, s, "before", nil, pre)
			defer vc.nodeAnchors(st, s, "after", nil, pre)
		}
		x := vc.eval(st, s.X)
		d := IntLit(1)
		var v Term
		if s.Tok == token.INC {
			v = app(SInt, "+", x, d)
		} else {
			v = app(SInt, "-", x, d)
		}
		vc.assignTo(st, s.X, v)
		return st
	case *ast.IfStmt:
		return vc.execIf(st, s)
	case *ast.ForStmt:
		return vc.execFor(st, s, "")
	case *ast.RangeStmt:
		return vc.execRange(st, s, "")
	case *ast.LabeledStmt:
		switch b := s.Stmt.(type) {
		case *ast.ForStmt:
			return vc.execFor(st, b, s.Label.Name)
		case *ast.RangeStmt:
			return vc.execRange(st, b, s.Label.Name)
		case *ast.SwitchStmt:
			return vc.execSwitch(st, b, s.Label.Name)
		case *ast.SelectStmt:
			return vc.execSelect(st, b, s.Label.Name)
		}
		return vc.exec(st, s.Stmt)
	case *ast.ReturnStmt:
		vc.execReturn(st, s)
		return nil
	case *ast.BranchStmt:
		fr := vc.cur()
		switch s.Tok {
		case token.BREAK:
			for i := len(fr.loops) - 1; i >= 0; i-- {
				lf := fr.loops[i]
				if s.Label == nil || lf.label == s.Label.Name {
					lf.breaks = append(lf.breaks, st)
					return nil
				}
			}
		case token.CONTINUE:
			for i := len(fr.loops) - 1; i >= 0; i-- {
				lf := fr.loops[i]
				if !lf.isLoop {
					continue
				}
				if s.Label == nil || lf.label == s.Label.Name {
					lf.conts = append(lf.conts, st)
					return nil
				}
			}
		}
		vc.fail("unsupported branch statement %s at %s", s.Tok, vc.prog.relFile(s.Pos()))
		return nil
	case *ast.SwitchStmt:
		return vc.execSwitch(st, s, "")
	case *ast.TypeSwitchStmt:
		return vc.execTypeSwitch(st, s)
	case *ast.SelectStmt:
		return vc.execSelect(st, s, "")
	case *ast.DeferStmt:
		vc.execDefer(st, s)
		return st
	case *ast.GoStmt:
		// the goroutine body is not part of this function's VC; arguments are evaluated
		if _, ok := s.Call.Fun.(*ast.FuncLit); !ok {
			var gargs []Term
			for _, a := range s.Call.Args {
				gargs = append(gargs, vc.eval(st, a))
			}
			// "before" assertions / ghost updates anchored at the started call see its arguments
			if items := vc.anchored[s.Call]; len(items) > 0 {
				pre := st.clone()
				saved := vc.argTerms
				vc.argTerms = gargs
				for _, it := range items {
					if it.gu.When == "before" {
						vc.applyAnchored(st, s.Call, it, nil, pre)
					}
				}
				vc.argTerms = saved
			}
		}
		vc.note("go statement: body runs in another thread, not in this VC")
		vc.checkSkippedCalls(st, s.Call, "go")
		return st
	case *ast.SendStmt:
		vc.eval(st, s.Chan)
		v := vc.eval(st, s.Value)
		if len(vc.anchoredNodes[s]) > 0 {
			pre := st.clone()
			vc.nodeAnchors(st, s, "before", []Term{v}, pre)
			vc.nodeAnchors(st, s, "after", []Term{v}, pre)
		}
		return st
	}
	vc.fail("unsupported statement %T at %s", s, vc.prog.relFile(s.Pos()))
	return st
}

// checkSkippedCalls: when a piece of code is not executed symbolically, make sure it contains
// no call that carries obligations (a contract with requires, or ghost anchors).
func (vc *VC) checkSkippedCalls(st *State, n ast.Node, why string) {
	// goroutine bodies are deliberately out of scope (documented); nothing to do here.
}

func (vc *VC) execIf(st *State, s *ast.IfStmt) *State {
	if s.Init != nil {
		st = vc.exec(st, s.Init)
		if st == nil {
			return nil
		}
	}
	c := vc.eval(st, s.Cond)
	if dead(st) {
		return nil
	}
	c = vc.nameTerm("cond", c)
	s1 := st.clone()
	s1.assume(c)
	s2 := st
	s2.assume(Not(c))
	r1 := vc.execBlock(s1, s.Body.List)
	var r2 *State
	if s.Else != nil {
		r2 = vc.exec(s2, s.Else)
	} else {
		r2 = s2
	}
	return vc.merge([]*State{r1, r2})
}

// effects of a syntax fragment
type effects struct {
	locals  map[types.Object]bool
	heapAll bool
	heap    map[string]bool
	ghosts  map[string]bool
	allocs  bool
	allocd  map[string]bool       // arrays written only at freshly allocated references
	calls   bool                  // contains a call other than a builtin or a local closure
	waits   bool                  // contains a sync.Cond.Wait
	patterns []string             // heap patterns from callee assigns clauses
	heapExt bool                  // external library calls: non-rqlite heap only
	targets map[string][]ast.Expr // heap name -> base expressions of the writes (targeted havoc)
	untgt   map[string]bool       // heap names with a write whose base is not a simple expression
}

func (ef *effects) target(name string, base ast.Expr) {
	if ef.targets == nil {
		ef.targets = map[string][]ast.Expr{}
	}
	ef.heap[name] = true
	ef.targets[name] = append(ef.targets[name], base)
}

func (ef *effects) untargeted(name string) {
	if ef.untgt == nil {
		ef.untgt = map[string]bool{}
	}
	ef.heap[name] = true
	ef.untgt[name] = true
}

// allocEffects: allocating a value of type t writes only the heap arrays of that type
// (at fresh references); recorded as untargeted writes of those arrays.
func (vc *VC) allocEffects(t types.Type, outer *effects) {
	outer.allocs = true
	if t == nil {
		outer.heapAll = true
		return
	}
	// collect the arrays into a scratch record, then register them as allocation-only
	ef := &effects{locals: map[types.Object]bool{}, heap: map[string]bool{}, ghosts: map[string]bool{}}
	defer func() {
		if outer.allocd == nil {
			outer.allocd = map[string]bool{}
		}
		for n := range ef.heap {
			outer.allocd[n] = true
		}
	}()
	t = types.Unalias(t)
	if p, ok := t.Underlying().(*types.Pointer); ok {
		t = types.Unalias(p.Elem())
	}
	switch u := t.Underlying().(type) {
	case *types.Struct:
		vc.objectTypePatterns(t, ef, 0)
	case *types.Slice:
		ef.untargeted(elemsName(sortOfType(u.Elem())))
		if isStructVal(u.Elem()) {
			vc.objectTypePatterns(u.Elem(), ef, 0)
		}
	case *types.Array:
		ef.untargeted(elemsName(sortOfType(u.Elem())))
	case *types.Map:
		ks, vs := sortOfType(u.Key()), sortOfType(u.Elem())
		ef.untargeted(mapDomName(ks, vs))
		ef.untargeted(mapValName(ks, vs))
	case *types.Chan:
	default:
		ef.untargeted("Box$" + sortKey(sortOfType(t)))
	}
}

func (vc *VC) effectsOf(nodes ...ast.Node) *effects {
	ef := &effects{locals: map[types.Object]bool{}, heap: map[string]bool{}, ghosts: map[string]bool{}}
	info := vc.info()
	markLHS := func(e ast.Expr) {
		switch l := ast.Unparen(e).(type) {
		case *ast.Ident:
			if o := info.ObjectOf(l); o != nil {
				ef.locals[o] = true
				if vc.isBoxed(o) {
					ef.untargeted("Box$" + sortKey(sortOfType(o.Type())))
				}
			}
		case *ast.SelectorExpr:
			if sel, ok := info.Selections[l]; ok && sel.Kind() == types.FieldVal {
				rt := sel.Recv()
				idx := sel.Index()
				for _, i := range idx[:len(idx)-1] {
					rt = structOf(rt).Field(i).Type()
				}
				if so := structOf(rt); so != nil {
					f := so.Field(idx[len(idx)-1])
					if len(idx) == 1 {
						ef.target(vc.fieldName(rt, f), l.X)
					} else {
						ef.untargeted(vc.fieldName(rt, f))
					}
					if isStructVal(f.Type()) {
						ef.heapAll = true
					}
				}
			} else if o, ok := info.Uses[l.Sel].(*types.Var); ok {
				ef.untargeted(vc.globalName(o))
			}
		case *ast.IndexExpr:
			xt := info.Types[l.X].Type
			if xt != nil {
				switch u := types.Unalias(xt).Underlying().(type) {
				case *types.Map:
					ks, vs := sortOfType(u.Key()), sortOfType(u.Elem())
					ef.target(mapDomName(ks, vs), l.X)
					ef.target(mapValName(ks, vs), l.X)
				default:
					ef.untargeted(elemsName(sortOfType(info.Types[l].Type)))
				}
			}
		case *ast.StarExpr:
			t := info.Types[l].Type
			if isStructVal(t) {
				ef.heapAll = true
			} else {
				ef.untargeted("Box$" + sortKey(sortOfType(t)))
			}
		default:
			ef.heapAll = true
		}
	}
	for _, n := range nodes {
		if n == nil {
			continue
		}
		ast.Inspect(n, func(x ast.Node) bool {
			switch x := x.(type) {
			case *ast.AssignStmt:
				for _, l := range x.Lhs {
					markLHS(l)
				}
				for _, r := range x.Rhs {
					if t := info.Types[r].Type; t != nil && isStructVal(t) {
						vc.allocEffects(t, ef) // struct copy allocates and writes all fields
					}
				}
			case *ast.IncDecStmt:
				markLHS(x.X)
			case *ast.RangeStmt:
				if x.Key != nil {
					markLHS(x.Key)
				}
				if x.Value != nil {
					markLHS(x.Value)
				}
			case *ast.ValueSpec:
				for _, id := range x.Names {
					if o := info.Defs[id]; o != nil {
						ef.locals[o] = true
						if isStructVal(o.Type()) {
							vc.allocEffects(o.Type(), ef)
						}
					}
				}
			case *ast.CompositeLit:
				vc.allocEffects(info.Types[x].Type, ef)
			case *ast.UnaryExpr:
				if x.Op == token.ARROW {
					// channel receive: no heap effect modelled
				}
			case *ast.CallExpr:
				vc.callEffects(x, ef)
			}
			return true
		})
	}
	return ef
}

func (vc *VC) execFor(st *State, s *ast.ForStmt, label string) *State {
	if s.Init != nil {
		st = vc.exec(st, s.Init)
		if st == nil {
			return nil
		}
	}
	ord := vc.loopOrdinal(s)
	invs := vc.loopInvariants(ord)
	for _, inv := range invs {
		vc.assertClause(st, vc.entryState(), inv, fmt.Sprintf("%s#loop%d-init[%s]", vc.fn.Key, ord, inv.Label), "loop-init", s.Pos(), nil)
	}
	ef := vc.effectsOf(s.Body, s.Post, s.Cond)
	h := vc.havocEffects(st, ef, s)
	for _, inv := range invs {
		h.assume(vc.tagHyp(inv.Label, vc.specClause(h, vc.entryState(), inv, nil, s.Pos())))
	}
	// a loop around Cond.Wait: the state at the loop head is the state right after the initial
	// Lock or the latest re-acquisition; that is what atlock() refers to after the loop.
	var headLock *State
	if ef.waits {
		headLock = h.clone()
		vc.lastLock = headLock
	}
	defer func() {
		if headLock != nil {
			vc.lastLock = headLock
		}
	}()
	// body
	var exitState *State
	body := h.clone()
	if s.Cond != nil {
		c := vc.eval(body, s.Cond)
		c = vc.nameTerm("loopcond", c)
		exitState = body.clone()
		exitState.assume(Not(c))
		body.assume(c)
	}
	lf := &loopFrame{label: label, isLoop: true, stmt: s}
	fr := vc.cur()
	fr.loops = append(fr.loops, lf)
	end := vc.execBlock(body, s.Body.List)
	fr.loops = fr.loops[:len(fr.loops)-1]
	back := vc.merge(append(lf.conts, end))
	if back != nil && s.Post != nil {
		back = vc.exec(back, s.Post)
	}
	if back != nil {
		for _, inv := range invs {
			vc.assertClause(back, vc.entryState(), inv, fmt.Sprintf("%s#loop%d-keep[%s]", vc.fn.Key, ord, inv.Label), "loop-keep", s.Pos(), nil)
		}
	}
	return vc.merge(append(lf.breaks, exitState))
}

func (vc *VC) loopOrdinal(s ast.Stmt) int {
	for i := len(vc.frames) - 1; i >= 0; i-- {
		if vc.frames[i].loopOrd != nil {
			if n, ok := vc.frames[i].loopOrd[s]; ok {
				return n
			}
		}
	}
	return 0
}

func (vc *VC) loopInvariants(ord int) []*Clause {
	// only loops of the function under verification (top frame numbering) carry invariants
	if ord == 0 || vc.contract == nil {
		return nil
	}
	// loops inside inlined callees are not numbered in the top frame (loopOrd nil)
	if ls := vc.contract.Loops[ord]; ls != nil {
		return ls.Invariants
	}
	return nil
}

func (vc *VC) entryState() *State { return vc.frames[0].entry }

// havocEffects returns a copy of st with everything in ef havocked.
// allocatedBound: v (of Go type t) refers to an object allocated so far.
func (vc *VC) allocatedBound(h *State, t types.Type, v Term) Term {
	lim := app(SInt, "+", Term{"alloc$base", SInt}, vc.heapGetDefault(h, "gl$$nalloc", IntLit(0)))
	if v.Sort == SSlc {
		return app(SBool, "<=", sbase(v), lim)
	}
	if t != nil && v.Sort == SInt {
		switch types.Unalias(t).Underlying().(type) {
		case *types.Pointer, *types.Map, *types.Chan:
			return app(SBool, "<=", v, lim)
		}
	}
	return TTrue
}

func (vc *VC) havocEffects(st *State, ef *effects, at ast.Node) *State {
	h := st.clone()
	// the allocation counter first: bounds on havocked references refer to its new value
	if ef.allocs || ef.heapAll {
		old := vc.heapGetDefault(h, "gl$$nalloc", IntLit(0))
		nv := vc.fresh("nalloc", SInt)
		h.assume(app(SBool, ">=", nv, old))
		h.heap["gl$$nalloc"] = nv
	}
	var objs []types.Object
	for o := range ef.locals {
		if _, ok := h.vars[o]; ok {
			objs = append(objs, o)
		}
	}
	sort.Slice(objs, func(i, j int) bool { return objs[i].Pos() < objs[j].Pos() })
	for _, o := range objs {
		if vc.isBoxed(o) {
			continue // the box reference is stable; its content lives in the heap
		}
		nv := vc.fresh(o.Name(), h.vars[o].Sort)
		h.vars[o] = nv
		h.assume(vc.rangeFact(o.Type(), nv))
		if vc.privSlices[o] && nv.Sort == SSlc {
			// a private local slice (private.go) only ever holds nil or a backing array made by
			// this activation (make / literal / append)
			h.assume(Or(Eq(slen(nv), IntLit(0)), app(SBool, ">", sbase(nv), Term{"alloc$base", SInt})))
		}
		if !ef.calls {
			h.assume(vc.allocatedBound(h, o.Type(), nv))
		}
	}
	if ef.heapAll {
		vc.havocHeap(h, "loop")
	} else {
		if ef.heapExt {
			vc.havocExternalHeap(h)
		}
		for _, p := range ef.patterns {
			vc.havocPattern(h, p)
		}
		var hs []string
		for n := range ef.heap {
			hs = append(hs, n)
		}
		sort.Strings(hs)
		var targeted []string
		for _, n := range hs {
			if len(ef.targets[n]) > 0 && !ef.untgt[n] {
				targeted = append(targeted, n)
				continue
			}
			if srt, ok := vc.universe[n]; ok {
				h.heap[n] = vc.fresh(n, srt)
			}
		}
		// targeted havoc: every write to the array goes through a base expression whose value
		// is the same before and inside the loop: only the entries at those bases change.
		saveSafe := vc.safe
		vc.safe = false
		evalIn := func(s *State, e ast.Expr) Term { return vc.eval(s.clone(), e) }
		bad := map[string]bool{}
		for _, n := range targeted {
			if _, ok := vc.universe[n]; !ok {
				bad[n] = true
			}
			for _, be := range ef.targets[n] {
				if hasEffectfulCall(vc, be) {
					bad[n] = true
				}
			}
		}
		for {
			h2 := h.clone()
			changed := false
			for _, n := range targeted {
				srt := vc.universe[n]
				if bad[n] {
					if srt != "" {
						h2.heap[n] = vc.fresh(n, srt)
					}
					continue
				}
				_, inner, _ := arrParts(srt)
				cur := h2.heap[n]
				seen := map[string]bool{}
				for _, be := range ef.targets[n] {
					b := evalIn(st, be)
					if b.Sort != SInt {
						bad[n] = true
						changed = true
						break
					}
					if seen[b.S] {
						continue
					}
					seen[b.S] = true
					at := vc.fresh(n+"$at", inner)
					if !ef.calls {
						// without calls in the loop every stored reference was allocated by this
						// function so far (or before it): it cannot be a reference allocated later
						lim := app(SInt, "+", Term{"alloc$base", SInt}, vc.heapGetDefault(h2, "gl$$nalloc", IntLit(0)))
						if inner == SSlc {
							h2.assume(app(SBool, "<=", sbase(at), lim))
						} else if heapRefLike[n] {
							h2.assume(app(SBool, "<=", at, lim))
						}
					}
					cur = Store(cur, b, at)
				}
				h2.heap[n] = vc.nameTerm(n, cur)
			}
			for _, n := range targeted {
				if bad[n] {
					continue
				}
				for _, be := range ef.targets[n] {
					if evalIn(st, be).S != evalIn(h2, be).S {
						bad[n] = true
						changed = true
						break
					}
				}
			}
			if !changed {
				h = h2
				break
			}
		}
		vc.safe = saveSafe
		// allocation-only effects: entries of references that existed before the loop are kept
		var an []string
		for n := range ef.allocd {
			if !ef.heap[n] {
				an = append(an, n)
			}
		}
		sort.Strings(an)
		n0 := vc.heapGetDefault(st, "gl$$nalloc", IntLit(0))
		for _, n := range an {
			srt, ok := vc.universe[n]
			if !ok {
				continue
			}
			if k, _, isArr := arrParts(srt); !isArr || k != SInt {
				h.heap[n] = vc.fresh(n, srt)
				continue
			}
			old := h.heap[n]
			nv := vc.fresh(n, srt)
			vc.emit(fmt.Sprintf("(assert (forall ((r Int)) (! (=> (<= r (+ alloc$base %s)) (= (select %s r) (select %s r))) :pattern ((select %s r)))))", n0.S, nv.S, old.S, nv.S))
			h.heap[n] = nv
		}
	}
	vc.havocGhosts(h, ef.ghosts)
	// ghost locals modified by anchored updates inside the fragment
	for _, gl := range vc.ghostLocalsUpdatedIn(at) {
		n := "gl$" + gl
		if srt, ok := vc.universe[n]; ok {
			old, had := h.heap[n]
			nv := vc.fresh(n, srt)
			h.heap[n] = nv
			// a ghost set that is only ever extended inside the fragment (g = update(g, k, true)) grows
			if k, v, isArr := arrParts(srt); had && isArr && v == SBool && vc.ghostOnlyGrowsIn(at, gl) {
				h.assume(Term{fmt.Sprintf("(forall ((x %s)) (! (=> (select %s x) (select %s x)) :pattern ((select %s x))))", k, old.S, nv.S, nv.S), SBool})
			}
		}
	}
	if _, ok := vc.universe["gl$$now"]; ok {
		old := vc.heapGetDefault(h, "gl$$now", vc.initialNow())
		nv := vc.fresh("now", SInt)
		h.assume(app(SBool, ">=", nv, old))
		h.heap["gl$$now"] = nv
	}
	return h
}

func (vc *VC) execRange(st *State, s *ast.RangeStmt, label string) *State {
	xt := vc.typeOf(s.X)
	x := vc.eval(st, s.X)
	ord := vc.loopOrdinal(s)
	invs := vc.loopInvariants(ord)
	info := vc.info()
	var keyObj, valObj types.Object
	define := s.Tok == token.DEFINE
	if id, ok := s.Key.(*ast.Ident); ok && id.Name != "_" {
		keyObj = info.ObjectOf(id)
	}
	if id, ok := s.Value.(*ast.Ident); ok && id.Name != "_" {
		valObj = info.ObjectOf(id)
	}
	_ = define
	// hidden index variable
	idxObj := types.NewVar(token.NoPos, nil, "_i", types.Typ[types.Int])
	kind := "slice"
	var n Term
	var elemSort string
	var mapT *types.Map
	switch u := types.Unalias(xt).Underlying().(type) {
	case *types.Slice:
		n = slen(x)
		elemSort = sortOfType(u.Elem())
	case *types.Array:
		n = slen(x)
		elemSort = sortOfType(u.Elem())
	case *types.Basic:
		if u.Info()&types.IsInteger != 0 {
			kind = "int"
			n = x
		} else {
			kind = "string"
		}
	case *types.Map:
		kind = "map"
		mapT = u
	case *types.Chan:
		kind = "chan"
	case *types.Signature:
		kind = "iter"
	default:
		kind = "other"
	}
	if kind == "iter" || kind == "other" || kind == "string" {
		vc.note("range over %s abstracted", kind)
	}
	indexed := kind == "slice" || kind == "int"
	if indexed {
		st.vars[idxObj] = IntLit(0)
		if keyObj != nil {
			vc.declareLocal(st, keyObj, IntLit(0))
		}
	}
	env := map[string]Term{}
	// range over a map: ghost set of the keys visited so far (visible to invariants as _visited)
	var visitedObj types.Object
	var rangeKey Term
	if kind == "map" {
		visitedObj = types.NewVar(token.NoPos, nil, "_visited", types.Typ[types.Int])
		st.vars[visitedObj] = zeroOfSort(arrSort(sortOfType(mapT.Key()), SBool))
		env["_visited"] = st.vars[visitedObj]
	}
	setEnv := func(s *State) {
		if indexed {
			env["_i"] = s.vars[idxObj]
		}
	}
	setEnv(st)
	for _, inv := range invs {
		vc.assertClause(st, vc.entryState(), inv, fmt.Sprintf("%s#loop%d-init[%s]", vc.fn.Key, ord, inv.Label), "loop-init", s.Pos(), env)
	}
	ef := vc.effectsOf(s.Body)
	if keyObj != nil {
		ef.locals[keyObj] = true
	}
	if valObj != nil {
		ef.locals[valObj] = true
	}
	ef.locals[idxObj] = true
	if visitedObj != nil {
		ef.locals[visitedObj] = true
	}
	h := vc.havocEffects(st, ef, s)
	var exitState *State
	body := h
	if indexed {
		i := h.vars[idxObj]
		h.assume(And(app(SBool, "<=", IntLit(0), i), app(SBool, "<=", i, n)))
		if keyObj != nil && !vc.isBoxed(keyObj) {
			h.vars[keyObj] = i
		}
		setEnv(h)
		for _, inv := range invs {
			h.assume(vc.tagHyp(inv.Label, vc.specClause(h, vc.entryState(), inv, env, s.Pos())))
		}
		exitState = h.clone()
		exitState.assume(Eq(i, n))
		delete(exitState.vars, idxObj)
		body = h.clone()
		body.assume(app(SBool, "<", i, n))
		if valObj != nil && kind == "slice" {
			v := vc.sliceIndex(body, x, i, elemSort)
			if isProtoMsgPtr(valObj.Type()) {
				body.assume(Not(Eq(v, IntLit(0)))) // protobuf: repeated message fields hold no nil elements
			}
			vc.assumeAllocated(body, v, valObj.Type())
			if isStructVal(valObj.Type()) {
				v = vc.copyStruct(body, valObj.Type(), v)
			}
			vc.declareLocal(body, valObj, v)
		}
	} else {
		if visitedObj != nil {
			env["_visited"] = h.vars[visitedObj]
		}
		for _, inv := range invs {
			h.assume(vc.tagHyp(inv.Label, vc.specClause(h, vc.entryState(), inv, env, s.Pos())))
		}
		exitState = h.clone()
		body = h.clone()
		switch kind {
		case "map":
			ks, vs := sortOfType(mapT.Key()), sortOfType(mapT.Elem())
			k := vc.fresh("rangekey", ks)
			v, ok := vc.mapLookup(body, x, k, vs)
			body.assume(ok)
			// each key is visited once; the loop ends when every key has been visited
			vis := h.vars[visitedObj]
			body.assume(Not(Select(vis, k)))
			rangeKey = k
			dom := Select(vc.mapDom(exitState, ks, vs), x)
			exitState.assume(Term{fmt.Sprintf("(forall ((k %s)) (! (=> (and (not (= %s 0)) (select %s k)) (select %s k)) :pattern ((select %s k))))", ks, x.S, dom.S, vis.S, dom.S), SBool})
			delete(exitState.vars, visitedObj)
			if keyObj != nil {
				vc.declareLocal(body, keyObj, k)
			}
			if valObj != nil {
				vc.declareLocal(body, valObj, v)
			}
		default:
			if keyObj != nil {
				vc.declareLocal(body, keyObj, vc.unknown("rangekey", keyObj.Type()))
			}
			if valObj != nil {
				vc.declareLocal(body, valObj, vc.unknown("rangeval", valObj.Type()))
			}
		}
	}
	lf := &loopFrame{label: label, isLoop: true, stmt: s}
	fr := vc.cur()
	fr.loops = append(fr.loops, lf)
	// "iter:<range variable>" anchors: at the start of every iteration, range variables bound
	if len(vc.anchoredNodes[s]) > 0 {
		preIter := body.clone()
		vc.nodeAnchors(body, s, "before", nil, preIter)
		vc.nodeAnchors(body, s, "after", nil, preIter)
	}
	end := vc.execBlock(body, s.Body.List)
	fr.loops = fr.loops[:len(fr.loops)-1]
	back := vc.merge(append(lf.conts, end))
	if back != nil {
		if indexed {
			back.vars[idxObj] = app(SInt, "+", h.vars[idxObj], IntLit(1))
			if keyObj != nil && !vc.isBoxed(keyObj) {
				back.vars[keyObj] = back.vars[idxObj]
			}
			env["_i"] = back.vars[idxObj]
		}
		if visitedObj != nil {
			back.vars[visitedObj] = Store(h.vars[visitedObj], rangeKey, TTrue)
			env["_visited"] = back.vars[visitedObj]
		}
		for _, inv := range invs {
			vc.assertClause(back, vc.entryState(), inv, fmt.Sprintf("%s#loop%d-keep[%s]", vc.fn.Key, ord, inv.Label), "loop-keep", s.Pos(), env)
		}
	}
	for _, b := range lf.breaks {
		delete(b.vars, idxObj)
	}
	return vc.merge(append(lf.breaks, exitState))
}

func (vc *VC) execSwitch(st *State, s *ast.SwitchStmt, label string) *State {
	if s.Init != nil {
		st = vc.exec(st, s.Init)
		if st == nil {
			return nil
		}
	}
	var tag Term
	hasTag := s.Tag != nil
	var tagT types.Type
	if hasTag {
		tag = vc.eval(st, s.Tag)
		tagT = vc.typeOf(s.Tag)
	}
	lf := &loopFrame{label: label, isLoop: false, stmt: s}
	fr := vc.cur()
	fr.loops = append(fr.loops, lf)
	var outs []*State
	rest := st
	var defaultClause *ast.CaseClause
	clauses := s.Body.List
	// bodies, with fallthrough support: compute entry state per clause
	type pending struct {
		cc *ast.CaseClause
		st *State
	}
	var entries []pending
	for _, c := range clauses {
		cc := c.(*ast.CaseClause)
		if cc.List == nil {
			defaultClause = cc
			entries = append(entries, pending{cc, nil})
			continue
		}
		if dead(rest) {
			entries = append(entries, pending{cc, nil})
			continue
		}
		var conds []Term
		for _, e := range cc.List {
			v := vc.eval(rest, e)
			if hasTag {
				conds = append(conds, vc.binop(rest, token.EQL, tag, v, tagT, e))
			} else {
				conds = append(conds, v)
			}
		}
		c0 := vc.nameTerm("case", Or(conds...))
		take := rest.clone()
		take.assume(c0)
		rest.assume(Not(c0))
		entries = append(entries, pending{cc, take})
	}
	for i := range entries {
		if entries[i].cc == defaultClause {
			entries[i].st = rest
			rest = nil
		}
	}
	var fall *State
	for _, en := range entries {
		in := vc.merge([]*State{en.st, fall})
		fall = nil
		if in == nil {
			continue
		}
		body := en.cc.Body
		ft := false
		if len(body) > 0 {
			if b, ok := body[len(body)-1].(*ast.BranchStmt); ok && b.Tok == token.FALLTHROUGH {
				ft = true
				body = body[:len(body)-1]
			}
		}
		out := vc.execBlock(in, body)
		if ft {
			fall = out
		} else {
			outs = append(outs, out)
		}
	}
	fr.loops = fr.loops[:len(fr.loops)-1]
	outs = append(outs, rest)
	outs = append(outs, lf.breaks...)
	return vc.merge(outs)
}

func (vc *VC) execTypeSwitch(st *State, s *ast.TypeSwitchStmt) *State {
	if s.Init != nil {
		st = vc.exec(st, s.Init)
		if st == nil {
			return nil
		}
	}
	var x ast.Expr
	var bind *ast.Ident
	switch a := s.Assign.(type) {
	case *ast.ExprStmt:
		x = a.X.(*ast.TypeAssertExpr).X
	case *ast.AssignStmt:
		x = a.Rhs[0].(*ast.TypeAssertExpr).X
		bind = a.Lhs[0].(*ast.Ident)
	}
	_ = bind
	xv := vc.eval(st, x)
	xt := vc.typeOf(x)
	lf := &loopFrame{isLoop: false, stmt: s}
	fr := vc.cur()
	fr.loops = append(fr.loops, lf)
	var outs []*State
	rest := st
	var defaultClause *ast.CaseClause
	for _, c := range s.Body.List {
		cc := c.(*ast.CaseClause)
		if cc.List == nil {
			defaultClause = cc
			continue
		}
		if dead(rest) {
			break
		}
		var conds []Term
		var single types.Type
		for _, e := range cc.List {
			tv := vc.info().Types[e]
			if tv.IsNil() {
				conds = append(conds, Eq(xv, IntLit(0)))
				continue
			}
			conds = append(conds, vc.hasDynType(rest, xv, xt, tv.Type))
			single = tv.Type
		}
		c0 := vc.nameTerm("tcase", Or(conds...))
		take := rest.clone()
		take.assume(c0)
		rest.assume(Not(c0))
		if o := vc.info().Implicits[cc]; o != nil {
			if len(cc.List) == 1 && single != nil {
				vc.declareLocal(take, o, vc.unboxAs(take, xv, xt, single))
			} else {
				vc.declareLocal(take, o, xv)
			}
		}
		outs = append(outs, vc.execBlock(take, cc.Body))
	}
	if defaultClause != nil && !dead(rest) {
		if o := vc.info().Implicits[defaultClause]; o != nil {
			vc.declareLocal(rest, o, xv)
		}
		outs = append(outs, vc.execBlock(rest, defaultClause.Body))
	} else {
		outs = append(outs, rest)
	}
	fr.loops = fr.loops[:len(fr.loops)-1]
	outs = append(outs, lf.breaks...)
	return vc.merge(outs)
}

func (vc *VC) execSelect(st *State, s *ast.SelectStmt, label string) *State {
	lf := &loopFrame{label: label, isLoop: false, stmt: s}
	fr := vc.cur()
	fr.loops = append(fr.loops, lf)
	choice := vc.fresh("select", SInt)
	// timed clauses: `case <-time.After(d)` fires d..d+slack after the select starts; any other
	// clause that is taken was ready no later than the earliest timer (+slack).
	timerDur := map[int]Term{}
	var minDur *Term
	hasDefault := false
	for i, c := range s.Body.List {
		cc := c.(*ast.CommClause)
		if cc.Comm == nil {
			hasDefault = true
			continue
		}
		var rx ast.Expr
		switch cm := cc.Comm.(type) {
		case *ast.ExprStmt:
			rx = cm.X
		case *ast.AssignStmt:
			rx = cm.Rhs[0]
		}
		if snd, ok := cc.Comm.(*ast.SendStmt); ok {
			vc.preEval[snd.Chan] = vc.eval(st, snd.Chan)
			vc.preEval[snd.Value] = vc.eval(st, snd.Value)
			defer delete(vc.preEval, snd.Chan)
			defer delete(vc.preEval, snd.Value)
			continue
		}
		if u, ok := ast.Unparen(rx).(*ast.UnaryExpr); ok && u.Op == token.ARROW {
			vc.preEval[u.X] = vc.eval(st, u.X)
			defer delete(vc.preEval, u.X)
			if call, ok := ast.Unparen(u.X).(*ast.CallExpr); ok {
				if fn := staticCallee(vc.info(), call); fn != nil && funcKey(fn) == "time.After" {
					d := vc.eval(st, call.Args[0])
					d = vc.nameTerm("dur", app(SInt, "imax", d, IntLit(0)))
					timerDur[i] = d
					if minDur == nil {
						minDur = &d
					} else {
						m := app(SInt, "imin", *minDur, d)
						minDur = &m
					}
				}
			}
		}
	}
	var now0 Term
	if minDur != nil && !hasDefault {
		now0 = vc.heapGetDefault(st, "gl$$now", vc.initialNow())
		vc.ensureSlack()
	}
	var outs []*State
	for i, c := range s.Body.List {
		cc := c.(*ast.CommClause)
		b := st.clone()
		b.assume(Eq(choice, IntLit(int64(i))))
		if minDur != nil && !hasDefault {
			t := vc.fresh("now", SInt)
			b.assume(app(SBool, ">=", t, now0))
			b.assume(app(SBool, "<=", t, app(SInt, "+", app(SInt, "+", now0, *minDur), Term{"time$slack", SInt})))
			if d, ok := timerDur[i]; ok {
				b.assume(app(SBool, ">=", t, app(SInt, "+", now0, d)))
			}
			b.heap["gl$$now"] = t
		}
		if snd, ok := cc.Comm.(*ast.SendStmt); ok {
			// a send case on a nil channel is never ready (Go spec): the chosen case has a non-nil channel
			if ch, ok := vc.preEval[snd.Chan]; ok && ch.Sort == SInt {
				b.assume(Not(Eq(ch, IntLit(0))))
			}
		}
		if cc.Comm != nil {
			b = vc.exec(b, cc.Comm)
		}
		outs = append(outs, vc.execBlock(b, cc.Body))
	}
	fr.loops = fr.loops[:len(fr.loops)-1]
	outs = append(outs, lf.breaks...)
	return vc.merge(outs)
}

// ---------------------------------------------------------------------------
// assignment

func (vc *VC) evalMulti(st *State, e ast.Expr, n int) []Term {
	e = ast.Unparen(e)
	switch x := e.(type) {
	case *ast.CallExpr:
		rs := vc.evalCall(st, x)
		for len(rs) < n {
			rs = append(rs, vc.fresh("res", SInt))
		}
		return rs
	case *ast.IndexExpr:
		if n == 2 {
			xt := vc.typeOf(x.X)
			if m, ok := types.Unalias(xt).Underlying().(*types.Map); ok {
				mv := vc.eval(st, x.X)
				k := vc.eval(st, x.Index)
				v, ok := vc.mapLookup(st, mv, k, sortOfType(m.Elem()))
				return []Term{v, ok}
			}
		}
	case *ast.TypeAssertExpr:
		if n == 2 {
			xv := vc.eval(st, x.X)
			xt := vc.typeOf(x.X)
			tt := vc.info().Types[x.Type].Type
			ok := vc.nameTerm("taok", vc.hasDynType(st, xv, xt, tt))
			v := Ite(ok, vc.unboxAs(st, xv, xt, tt), zeroOfSort(sortOfType(tt)))
			return []Term{v, ok}
		}
	case *ast.UnaryExpr:
		if x.Op == token.ARROW && n == 2 {
			ch := vc.eval(st, x.X)
			v := vc.chanRecv(st, ch, vc.typeOf(x.X).Underlying().(*types.Chan).Elem())
			return []Term{v, vc.fresh("chok", SBool)}
		}
	}
	v := vc.eval(st, e)
	out := []Term{v}
	for len(out) < n {
		out = append(out, vc.fresh("res", SInt))
	}
	return out
}

func (vc *VC) execAssign(st *State, s *ast.AssignStmt) {
	if len(vc.anchoredNodes[s]) > 0 {
		pre := st.clone()
		defer func() {
			if !dead(st) {
				// everything anchored at a definition is evaluated once the variable exists
				vc.nodeAnchors(st, s, "before", nil, pre)
				vc.nodeAnchors(st, s, "after", nil, pre)
			}
		}()
	}
	info := vc.info()
	if s.Tok != token.ASSIGN && s.Tok != token.DEFINE {
		// op-assign
		l := vc.eval(st, s.Lhs[0])
		r := vc.eval(st, s.Rhs[0])
		var op token.Token
		switch s.Tok {
		case token.ADD_ASSIGN:
			op = token.ADD
		case token.SUB_ASSIGN:
			op = token.SUB
		case token.MUL_ASSIGN:
			op = token.MUL
		case token.QUO_ASSIGN:
			op = token.QUO
		case token.REM_ASSIGN:
			op = token.REM
		case token.AND_ASSIGN:
			op = token.AND
		case token.OR_ASSIGN:
			op = token.OR
		case token.XOR_ASSIGN:
			op = token.XOR
		case token.SHL_ASSIGN:
			op = token.SHL
		case token.SHR_ASSIGN:
			op = token.SHR
		case token.AND_NOT_ASSIGN:
			op = token.AND_NOT
		}
		vc.assignTo(st, s.Lhs[0], vc.binop(st, op, l, r, vc.typeOf(s.Lhs[0]), s))
		return
	}
	var vals []Term
	var rtypes []types.Type
	if len(s.Rhs) == 1 && len(s.Lhs) > 1 {
		vals = vc.evalMulti(st, s.Rhs[0], len(s.Lhs))
		if tup, ok := vc.typeOf(s.Rhs[0]).(*types.Tuple); ok {
			for i := 0; i < tup.Len(); i++ {
				rtypes = append(rtypes, tup.At(i).Type())
			}
		}
	} else {
		for _, r := range s.Rhs {
			vals = append(vals, vc.evalCopy(st, r))
			rtypes = append(rtypes, vc.typeOf(r))
		}
	}
	for i, l := range s.Lhs {
		if i >= len(vals) {
			break
		}
		var rt types.Type
		if i < len(rtypes) {
			rt = rtypes[i]
		}
		if id, ok := l.(*ast.Ident); ok {
			if id.Name == "_" {
				continue
			}
			if s.Tok == token.DEFINE {
				if o := info.Defs[id]; o != nil {
					vc.declareLocal(st, o, vc.convertTo(st, vals[i], rt, o.Type()))
					continue
				}
			}
		}
		vc.assignTo(st, l, vc.convertTo(st, vals[i], rt, vc.typeOf(l)))
	}
}

func (vc *VC) assignTo(st *State, lhs ast.Expr, v Term) {
	info := vc.info()
	switch l := ast.Unparen(lhs).(type) {
	case *ast.Ident:
		if l.Name == "_" {
			return
		}
		if o, ok := info.ObjectOf(l).(*types.Var); ok {
			vc.writeVar(st, o, v)
			return
		}
	case *ast.SelectorExpr:
		if sel, ok := info.Selections[l]; ok && sel.Kind() == types.FieldVal {
			base := vc.eval(st, l.X)
			idx := sel.Index()
			rt := sel.Recv()
			if len(idx) > 1 {
				base = vc.selectPath(st, base, rt, idx[:len(idx)-1])
				for _, i := range idx[:len(idx)-1] {
					rt = structOf(rt).Field(i).Type()
				}
			}
			if vc.safe {
				if _, isPtr := types.Unalias(rt).Underlying().(*types.Pointer); isPtr {
					vc.assert(st, vc.oblName("nil", exprText(vc, l.X)), "safety", l.Pos(), exprText(vc, l)+" = …", Not(Eq(base, IntLit(0))))
				}
			}
			f := structOf(rt).Field(idx[len(idx)-1])
			vc.monitorWriteCheck(st, base, rt, f, l)
			vc.writeField(st, base, rt, f, v)
			return
		}
		if o, ok := info.Uses[l.Sel].(*types.Var); ok {
			vc.writeVar(st, o, v)
			return
		}
	case *ast.IndexExpr:
		xt := vc.typeOf(l.X)
		x := vc.eval(st, l.X)
		switch types.Unalias(xt).Underlying().(type) {
		case *types.Map:
			k := vc.eval(st, l.Index)
			if vc.safe {
				vc.assert(st, vc.oblName("nilmap", exprText(vc, l.X)), "safety", l.Pos(), exprText(vc, l), Not(Eq(x, IntLit(0))))
			}
			vc.mapStore(st, x, k, v)
			return
		case *types.Slice, *types.Array:
			i := vc.eval(st, l.Index)
			vc.boundsCheck(st, x, i, l)
			vc.sliceStore(st, x, i, v)
			return
		}
	case *ast.StarExpr:
		p := vc.eval(st, l.X)
		t := vc.typeOf(l)
		if isStructVal(t) {
			// *p = v : copy all fields
			s := structOf(t)
			for i := 0; i < s.NumFields(); i++ {
				f := s.Field(i)
				vc.writeField(st, p, t, f, vc.readField(st, v, t, f))
			}
			return
		}
		name := "Box$" + sortKey(v.Sort)
		h := vc.heapGet(st, name, arrSort(SInt, v.Sort))
		vc.heapSet(st, name, Store(h, p, v))
		return
	}
	vc.note("unsupported assignment target %s", exprText(vc, lhs))
	vc.havocHeap(st, "assign")
}

// ---------------------------------------------------------------------------
// return / defer

func (vc *VC) execReturn(st *State, s *ast.ReturnStmt) {
	fr := vc.cur()
	if len(s.Results) == 1 && len(fr.results) > 1 {
		rs := vc.evalMulti(st, s.Results[0], len(fr.results))
		for i, o := range fr.results {
			st.vars[o] = rs[i]
		}
	} else if len(s.Results) > 0 {
		var vals []Term
		for i, r := range s.Results {
			v := vc.evalCopy(st, r)
			if i < len(fr.results) {
				v = vc.convertTo(st, v, vc.typeOf(r), fr.results[i].Type())
			}
			vals = append(vals, v)
		}
		for i, o := range fr.results {
			if i < len(vals) {
				if vc.isBoxed(o) {
					vc.writeVar(st, o.(*types.Var), vals[i])
				} else {
					st.vars[o] = vc.nameTerm(o.Name(), vals[i])
				}
			}
		}
	}
	if dead(st) {
		return
	}
	// "return#k" anchors (top frame only): the values being returned are result0, result1, ...;
	// locals of the returning scope are still visible
	if fr.top && len(vc.anchoredNodes[s]) > 0 {
		var rs []Term
		for _, o := range fr.results {
			if vc.isBoxed(o) {
				rs = append(rs, vc.readVar(st, o.(*types.Var)))
			} else {
				rs = append(rs, st.vars[o])
			}
		}
		pre := st.clone()
		vc.resultGoTypesOverride = nil
		for _, o := range fr.results {
			vc.resultGoTypesOverride = append(vc.resultGoTypesOverride, o.Type())
		}
		vc.nodeAnchors(st, s, "before", rs, pre)
		vc.nodeAnchors(st, s, "after", rs, pre)
		vc.resultGoTypesOverride = nil
		if dead(st) {
			return
		}
	}
	vc.finishFrame(st)
}

// finishFrame runs deferred calls and records the exit.
func (vc *VC) finishFrame(st *State) {
	fr := vc.cur()
	savedLoops := fr.loops
	fr.loops = nil
	for i := len(fr.defers) - 1; i >= 0; i-- {
		d := fr.defers[i]
		di := fr.deferObj[d]
		if di == nil {
			continue
		}
		armed, ok := st.vars[di.armed]
		if !ok || armed.S == "false" {
			continue
		}
		if armed.S == "true" {
			vc.runDeferred(st, d, di)
			if dead(st) {
				fr.loops = savedLoops
				return
			}
			continue
		}
		s1 := st.clone()
		s1.assume(armed)
		vc.runDeferred(s1, d, di)
		s2 := st.clone()
		s2.assume(Not(armed))
		m := vc.merge([]*State{s1, s2})
		if m == nil {
			fr.loops = savedLoops
			return
		}
		*st = *m
	}
	fr.loops = savedLoops
	fr.exits = append(fr.exits, st)
}

func (vc *VC) execDefer(st *State, d *ast.DeferStmt) {
	fr := vc.cur()
	di := fr.deferObj[d]
	if di == nil {
		di = &deferInfo{armed: types.NewVar(d.Pos(), nil, "armed", types.Typ[types.Bool])}
		fr.deferObj[d] = di
		found := false
		for _, x := range fr.defers {
			if x == d {
				found = true
			}
		}
		if !found {
			vc.fail("defer inside a nested construct not registered at %s", vc.prog.relFile(d.Pos()))
		}
	}
	if _, ok := d.Call.Fun.(*ast.FuncLit); !ok {
		// evaluate receiver and args now
		di.args = di.args[:0]
		for i, a := range d.Call.Args {
			o := types.NewVar(d.Pos(), nil, fmt.Sprintf("deferarg%d", i), vc.typeOf(a))
			st.vars[o] = vc.eval(st, a)
			di.args = append(di.args, o)
		}
		if sel, ok := ast.Unparen(d.Call.Fun).(*ast.SelectorExpr); ok {
			if _, isSel := vc.info().Selections[sel]; isSel {
				o := types.NewVar(d.Pos(), nil, "deferrecv", vc.typeOf(sel.X))
				st.vars[o] = vc.eval(st, sel.X)
				di.recv = o
			}
		}
	}
	st.vars[di.armed] = TTrue
}

func (vc *VC) runDeferred(st *State, d *ast.DeferStmt, di *deferInfo) {
	if fl, ok := d.Call.Fun.(*ast.FuncLit); ok {
		var args []Term
		for _, a := range d.Call.Args {
			args = append(args, vc.eval(st, a))
		}
		vc.inlineBody(st, fl.Type, fl.Body, nil, Term{}, args, vc.cur().info, vc.cur().pkg, "deferred closure", nil)
		return
	}
	var args []Term
	for _, o := range di.args {
		args = append(args, st.vars[o])
	}
	var recv *Term
	if di.recv != nil {
		r := st.vars[di.recv]
		recv = &r
	}
	vc.dispatchCall(st, d.Call, recv, args)
}

// ghostLocalsUpdatedIn lists function-level ghost variables updated by anchors inside a node.
func (vc *VC) ghostLocalsUpdatedIn(at ast.Node) []string {
	if vc.contract == nil || at == nil {
		return nil
	}
	seen := map[string]bool{}
	ast.Inspect(at, func(n ast.Node) bool {
		if call, ok := n.(*ast.CallExpr); ok {
			for _, u := range vc.anchored[call] {
				if u.isUpdate {
					seen[u.gu.Var] = true
				}
			}
		}
		for _, u := range vc.anchoredNodes[n] {
			if u.isUpdate {
				seen[u.gu.Var] = true
			}
		}
		return true
	})
	var out []string
	for k := range seen {
		if _, isGlobal := vc.prog.DB.Ghosts[k]; !isGlobal {
			out = append(out, k)
		}
	}
	sort.Strings(out)
	return out
}

func trimLabel(s string) string { return strings.TrimSpace(s) }
