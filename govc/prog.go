package main

// Program loading: packages, function index, contract binding.

import (
	"fmt"
	"go/ast"
	"go/token"
	"go/types"
	"os"
	"path/filepath"
	"sort"
	"strings"

	"golang.org/x/tools/go/packages"
)

type FuncInfo struct {
	Key  string
	Decl *ast.FuncDecl
	Pkg  *packages.Package
	Obj  *types.Func
	// closure procedures ("<enclosing function key>$<local name>"): a function literal bound to a
	// local of Outer, verified as a procedure of its own with every captured variable arbitrary
	Lit   *ast.FuncLit
	Outer *ast.FuncDecl
}

// indexClosures registers the function literals bound to a local name inside fd as closure
// procedures (see FuncInfo.Lit). Decl is a synthetic declaration sharing the literal's type and body.
func (p *Prog) indexClosures(pk *packages.Package, outerKey string, fd *ast.FuncDecl) {
	reg := func(id *ast.Ident, fl *ast.FuncLit) {
		if id == nil || id.Name == "_" {
			return
		}
		k := outerKey + "$" + id.Name
		if _, dup := p.Funcs[k]; dup {
			return // first binding wins; a name bound twice cannot be addressed
		}
		decl := &ast.FuncDecl{Name: &ast.Ident{Name: id.Name, NamePos: fl.Pos()}, Type: fl.Type, Body: fl.Body}
		p.Funcs[k] = &FuncInfo{Key: k, Decl: decl, Pkg: pk, Lit: fl, Outer: fd}
	}
	nGo := 0
	ast.Inspect(fd.Body, func(n ast.Node) bool {
		switch x := n.(type) {
		case *ast.GoStmt:
			// "go func() { ... }()": the k-th goroutine body of the function is "<key>$go<k>"
			if fl, ok := ast.Unparen(x.Call.Fun).(*ast.FuncLit); ok {
				nGo++
				reg(&ast.Ident{Name: fmt.Sprintf("go%d", nGo)}, fl)
			}
		case *ast.AssignStmt:
			if len(x.Lhs) == len(x.Rhs) {
				for i, r := range x.Rhs {
					if fl, ok := ast.Unparen(r).(*ast.FuncLit); ok {
						if id, ok := x.Lhs[i].(*ast.Ident); ok {
							reg(id, fl)
						}
					}
				}
			}
		case *ast.ValueSpec:
			for i, r := range x.Values {
				if fl, ok := ast.Unparen(r).(*ast.FuncLit); ok && i < len(x.Names) {
					reg(x.Names[i], fl)
				}
			}
		case *ast.KeyValueExpr:
			// "T{ Field: func(...) {...} }": the literal bound to a struct field is "<key>$<Field>"
			if fl, ok := ast.Unparen(x.Value).(*ast.FuncLit); ok {
				if id, ok := x.Key.(*ast.Ident); ok {
					reg(id, fl)
				}
			}
		}
		return true
	})
}

type Prog struct {
	Fset  *token.FileSet
	Pkgs  map[string]*packages.Package // by pkg path
	DB    *ContractDB
	Funcs map[string]*FuncInfo
	// inferred ghost modification sets (transitive), by function key
	GhostMods map[string]map[string]bool
	HeapPure     map[string]bool
	stableHeap   map[string]bool
	stableFields map[*types.Var]*TypeContract
	RepoDir   string
}

func funcKey(f *types.Func) string {
	if f == nil {
		return ""
	}
	if o := f.Origin(); o != nil {
		f = o
	}
	return normKey(f.FullName())
}

func LoadProg(repo string, patterns []string, specFiles []string) (*Prog, error) {
	cfg := &packages.Config{
		Mode:       packages.NeedName | packages.NeedFiles | packages.NeedSyntax | packages.NeedTypes | packages.NeedTypesInfo | packages.NeedImports | packages.NeedDeps,
		Dir:        repo,
		BuildFlags: []string{"-tags=verif"},
	}
	// NeedDeps with syntax only for rqlite packages would be expensive: restrict by loading
	// only the named patterns with syntax; dependencies come from export data.
	cfg.Mode &^= packages.NeedDeps
	if ov := os.Getenv("GOVC_OVERLAY"); ov != "" {
		cfg.Overlay = map[string][]byte{}
		for _, kv := range strings.Split(ov, ",") {
			if i := strings.Index(kv, "="); i > 0 {
				b, err := os.ReadFile(kv[i+1:])
				if err != nil {
					return nil, err
				}
				cfg.Overlay[kv[:i]] = b
			}
		}
	}
	pkgs, err := packages.Load(cfg, patterns...)
	if err != nil {
		return nil, err
	}
	p := &Prog{Pkgs: map[string]*packages.Package{}, DB: NewContractDB(), Funcs: map[string]*FuncInfo{}, RepoDir: repo, GhostMods: map[string]map[string]bool{}}
	for _, pk := range pkgs {
		if len(pk.Errors) > 0 {
			return nil, fmt.Errorf("package %s: %v", pk.PkgPath, pk.Errors[0])
		}
		p.Fset = pk.Fset
		p.Pkgs[pk.PkgPath] = pk
	}
	// spec library files first
	for _, sf := range specFiles {
		if err := p.DB.LoadSpecFile(sf); err != nil {
			return nil, err
		}
	}
	var paths []string
	for pp := range p.Pkgs {
		paths = append(paths, pp)
	}
	sort.Strings(paths)
	for _, pp := range paths {
		pk := p.Pkgs[pp]
		for i, f := range pk.Syntax {
			_ = i; fname := pk.Fset.Position(f.Package).Filename
			if strings.HasSuffix(fname, "_verif.go") {
				b, err := os.ReadFile(fname)
				if err != nil {
					return nil, err
				}
				if err := p.DB.LoadContractSource(fname, string(b), pk.PkgPath); err != nil {
					return nil, err
				}
				continue
			}
			for _, d := range f.Decls {
				fd, ok := d.(*ast.FuncDecl)
				if !ok || fd.Body == nil {
					continue
				}
				obj, _ := pk.TypesInfo.Defs[fd.Name].(*types.Func)
				if obj == nil {
					continue
				}
				k := funcKey(obj)
				p.Funcs[k] = &FuncInfo{Key: k, Decl: fd, Pkg: pk, Obj: obj}
				p.indexClosures(pk, k, fd)
			}
		}
	}
	p.inferGhostMods()
	p.computeStable()
	p.inferHeapPure()
	return p, nil
}

func (p *Prog) relFile(pos token.Pos) string {
	ps := p.Fset.Position(pos)
	r, err := filepath.Rel(p.RepoDir, ps.Filename)
	if err != nil {
		r = ps.Filename
	}
	return fmt.Sprintf("%s:%d", r, ps.Line)
}

// staticCallee resolves the *types.Func called by a call expression, if static
// (function, method, or interface method).
func staticCallee(info *types.Info, call *ast.CallExpr) *types.Func {
	fun := ast.Unparen(call.Fun)
	switch f := fun.(type) {
	case *ast.IndexExpr:
		fun = f.X
	case *ast.IndexListExpr:
		fun = f.X
	}
	switch f := fun.(type) {
	case *ast.Ident:
		if fn, ok := info.Uses[f].(*types.Func); ok {
			return fn
		}
	case *ast.SelectorExpr:
		if sel, ok := info.Selections[f]; ok {
			if fn, ok := sel.Obj().(*types.Func); ok {
				return fn
			}
			return nil
		}
		if fn, ok := info.Uses[f.Sel].(*types.Func); ok {
			return fn
		}
	}
	return nil
}

// declaredGhostAssigns returns the ghost names a contract says the function may modify.
func (p *Prog) contractGhostAssigns(c *FuncContract) map[string]bool {
	m := map[string]bool{}
	for _, a := range c.Assigns {
		if a == "**" {
			// "**": any heap location and any ghost (top-level functions whose frame is of no interest)
			for g := range p.DB.Ghosts {
				m[g] = true
			}
		}
		if _, ok := p.DB.Ghosts[a]; ok {
			m[a] = true
		}
	}
	return m
}

// inferGhostMods computes, for every function with a body in the loaded packages, the set
// of global ghost variables it may modify: contracted functions contribute their declared
// assigns (which their own verification checks); uncontracted ones the union over their
// static callees.
func (p *Prog) inferGhostMods() {
	callees := map[string][]string{}
	for k, fi := range p.Funcs {
		if c := p.DB.Funcs[k]; c != nil {
			p.GhostMods[k] = p.contractGhostAssigns(c)
			continue
		}
		p.GhostMods[k] = map[string]bool{}
		info := fi.Pkg.TypesInfo
		ast.Inspect(fi.Decl.Body, func(n ast.Node) bool {
			if call, ok := n.(*ast.CallExpr); ok {
				if fn := staticCallee(info, call); fn != nil {
					callees[k] = append(callees[k], funcKey(fn))
				}
				if id, ok := ast.Unparen(call.Fun).(*ast.Ident); ok && id.Name == "close" {
					if _, isB := info.Uses[id].(*types.Builtin); isB {
						p.GhostMods[k]["chanClosed"] = true
					}
				}
			}
			return true
		})
	}
	// contracted functions without bodies (externals, interface methods)
	for k, c := range p.DB.Funcs {
		if _, ok := p.GhostMods[k]; !ok {
			p.GhostMods[k] = p.contractGhostAssigns(c)
		}
	}
	changed := true
	for changed {
		changed = false
		for k, cs := range callees {
			for _, c := range cs {
				for g := range p.GhostMods[c] {
					if !p.GhostMods[k][g] {
						p.GhostMods[k][g] = true
						changed = true
					}
				}
			}
		}
	}
}

func isRqlitePkg(path string) bool { return strings.HasPrefix(path, modPath) }
