package main

// Case split on the choice variable of a select statement when a query times out undivided.

import (
	"fmt"
	"regexp"
	"sort"
	"strings"
)

var choiceEqRe = regexp.MustCompile(`\(= (select![0-9]+) ([0-9]+)\)`)

func caseSplitOnChoice(q string, timeoutS int) (SolverResult, bool) {
	vals := map[string]map[string]bool{}
	for _, m := range choiceEqRe.FindAllStringSubmatch(q, -1) {
		if vals[m[1]] == nil {
			vals[m[1]] = map[string]bool{}
		}
		vals[m[1]][m[2]] = true
	}
	best := ""
	for v, s := range vals {
		if len(s) >= 2 && (best == "" || len(s) > len(vals[best]) || (len(s) == len(vals[best]) && v < best)) {
			best = v
		}
	}
	if best == "" {
		return SolverResult{}, false
	}
	i := strings.Index(q, "(check-sat)")
	if i < 0 {
		return SolverResult{}, false
	}
	var vs []string
	for v := range vals[best] {
		vs = append(vs, v)
	}
	sort.Strings(vs)
	var cases []string
	var none []string
	for _, v := range vs {
		cases = append(cases, fmt.Sprintf("(assert (= %s %s))\n", best, v))
		none = append(none, fmt.Sprintf("(not (= %s %s))", best, v))
	}
	cases = append(cases, "(assert (and "+strings.Join(none, " ")+"))\n")
	total := 0.0
	var last SolverResult
	for _, c := range cases {
		r := runSolvers(q[:i]+c+q[i:], timeoutS, false)
		total += r.Secs
		if r.Status == "sat" {
			r.Solver += " [case " + strings.TrimSpace(c) + "]"
			return r, true
		}
		if r.Status != "unsat" {
			return SolverResult{}, false
		}
		last = r
	}
	last.Secs = total
	last.Solver += fmt.Sprintf(" [case split on %s, %d cases]", best, len(cases))
	return last, true
}
