package main

// Stable fields: struct fields that a type contract declares to be assigned only by the
// listed constructor functions. Opaque calls do not havoc them; the declaration is checked
// syntactically over every function of the loaded packages (one static obligation per field).

import (
	"fmt"
	"go/ast"
	"go/token"
	"go/types"
	"sort"
	"strings"
)

type StaticObl struct {
	Name string
	OK   bool
	Msg  string
	Pos  string
}

func (p *Prog) computeStable() {
	p.stableHeap = map[string]bool{}
	p.stableFields = map[*types.Var]*TypeContract{}
	for key, tc := range p.DB.Types {
		if len(tc.Stable) == 0 {
			continue
		}
		i := strings.LastIndex(key, ".")
		if i < 0 {
			continue
		}
		pk := p.Pkgs[key[:i]]
		if pk == nil {
			continue
		}
		obj := pk.Types.Scope().Lookup(key[i+1:])
		if obj == nil {
			continue
		}
		st, ok := obj.Type().Underlying().(*types.Struct)
		if !ok {
			continue
		}
		for _, fname := range tc.Stable {
			for j := 0; j < st.NumFields(); j++ {
				if f := st.Field(j); f.Name() == fname {
					p.stableHeap[fieldHeapName(obj.Type(), fname)] = true
					p.stableFields[f] = tc
				}
			}
		}
	}
}

// StableObligations checks that no function outside the allowed constructors assigns or takes
// the address of a stable field.
func (p *Prog) StableObligations() []StaticObl {
	viol := map[*types.Var][]string{}
	var paths []string
	for pp := range p.Pkgs {
		paths = append(paths, pp)
	}
	sort.Strings(paths)
	for _, pp := range paths {
		pk := p.Pkgs[pp]
		info := pk.TypesInfo
		for _, f := range pk.Syntax {
			for _, d := range f.Decls {
				fd, ok := d.(*ast.FuncDecl)
				if !ok || fd.Body == nil {
					continue
				}
				fieldOf := func(e ast.Expr) *types.Var {
					se, ok := ast.Unparen(e).(*ast.SelectorExpr)
					if !ok {
						return nil
					}
					sel, ok := info.Selections[se]
					if !ok || sel.Kind() != types.FieldVal {
						return nil
					}
					v, _ := sel.Obj().(*types.Var)
					return v
				}
				flag := func(e ast.Expr, what string) {
					v := fieldOf(e)
					if v == nil {
						return
					}
					tc := p.stableFields[v]
					if tc == nil {
						return
					}
					for _, a := range tc.StableIn {
						if a == fd.Name.Name {
							return
						}
					}
					viol[v] = append(viol[v], fmt.Sprintf("%s in %s at %s", what, fd.Name.Name, p.relFile(e.Pos())))
				}
				ast.Inspect(fd.Body, func(n ast.Node) bool {
					switch x := n.(type) {
					case *ast.AssignStmt:
						for _, l := range x.Lhs {
							flag(l, "assignment")
						}
					case *ast.IncDecStmt:
						flag(x.X, "inc/dec")
					case *ast.UnaryExpr:
						if x.Op == token.AND {
							flag(x.X, "address taken")
						}
					}
					return true
				})
			}
		}
	}
	var out []StaticObl
	var fields []*types.Var
	for f := range p.stableFields {
		fields = append(fields, f)
	}
	sort.Slice(fields, func(i, j int) bool { return fields[i].Pos() < fields[j].Pos() })
	for _, f := range fields {
		tc := p.stableFields[f]
		o := StaticObl{Name: tc.Key + "#stable[" + f.Name() + "]", OK: len(viol[f]) == 0, Pos: p.relFile(f.Pos())}
		if !o.OK {
			o.Msg = strings.Join(viol[f], "; ")
		} else {
			o.Msg = "assigned only in " + strings.Join(tc.StableIn, ", ")
		}
		out = append(out, o)
	}
	return out
}

// sentinelAlias resolves `var X = Y` / `var X = pkg.Y` (package level, error-like) to the variable
// it is initialised from, when the declaring package's syntax is loaded.
func (p *Prog) sentinelAlias(o *types.Var, depth int) *types.Var {
	if depth > 4 || o.Pkg() == nil {
		return nil
	}
	pk := p.Pkgs[o.Pkg().Path()]
	if pk == nil {
		return nil
	}
	for _, f := range pk.Syntax {
		for _, d := range f.Decls {
			gd, ok := d.(*ast.GenDecl)
			if !ok || gd.Tok != token.VAR {
				continue
			}
			for _, sp := range gd.Specs {
				vs := sp.(*ast.ValueSpec)
				for i, nm := range vs.Names {
					if pk.TypesInfo.Defs[nm] != o || i >= len(vs.Values) {
						continue
					}
					var target types.Object
					switch v := ast.Unparen(vs.Values[i]).(type) {
					case *ast.Ident:
						target = pk.TypesInfo.Uses[v]
					case *ast.SelectorExpr:
						target = pk.TypesInfo.Uses[v.Sel]
					}
					if tv, ok := target.(*types.Var); ok && tv.Pkg() != nil && tv.Parent() == tv.Pkg().Scope() {
						if a := p.sentinelAlias(tv, depth+1); a != nil {
							return a
						}
						return tv
					}
					return nil
				}
			}
		}
	}
	return nil
}
