package main

// Builtins, conversions and models of library functions.

import (
	"fmt"
	"go/ast"
	"go/types"
	"strings"
)

// packages whose functions never modify rqlite-visible Go heap and have no ghost effects;
// results are unknown unless modelled below.
var noHeapPkgs = map[string]bool{
	"strings": true, "strconv": true, "fmt": true, "errors": true, "path/filepath": true, "path": true,
	"time": true, "math": true, "unicode": true, "unicode/utf8": true, "expvar": true, "log": true,
	"math/rand": true, "math/rand/v2": true, "crypto/rand": true, "encoding/hex": true, "encoding/base64": true,
	"regexp": true, "net/url": true, "sync/atomic": true, "context": true, "runtime": true, "reflect": true,
	"hash/crc32": true, "slices": true, "maps": true, "cmp": true, "math/bits": true, "os": true, "sync": true,
	"github.com/rqlite/rqlite/v10/internal/random": true, "net": true, "crypto/tls": true, "crypto/x509": true,
	"bytes": true, "sort": true, "encoding/binary": true, "io": false,
}

// calls that are pure observability: dropped entirely
func isObservability(key string, fn *types.Func) bool {
	if fn.Pkg() == nil {
		return false
	}
	switch fn.Pkg().Path() {
	case "expvar":
		return true
	case "log":
		return !strings.Contains(fn.Name(), "Fatal") && !strings.Contains(fn.Name(), "Panic")
	}
	switch key {
	case modPath + "/store.recordDuration", modPath + "/store.recordDurationMs":
		return true
	}
	return false
}

func libraryPure(key string, fn *types.Func) bool {
	if fn.Pkg() == nil {
		return true // error.Error etc.
	}
	p := fn.Pkg().Path()
	if isObservability(key, fn) {
		return true
	}
	switch p {
	case "strings", "strconv", "fmt", "errors", "path/filepath", "path", "time", "math", "unicode", "unicode/utf8", "regexp", "math/bits", "cmp", "net/url", "encoding/hex", "encoding/base64", "hash/crc32", "context", "math/rand", "runtime":
		return !strings.HasPrefix(fn.Name(), "Fprint") && !strings.HasPrefix(fn.Name(), "Fscan") && !strings.HasPrefix(fn.Name(), "Sscan")
	case "sync/atomic":
		return true
	case "sync":
		return true
	}
	return false
}

func (vc *VC) evalConversion(st *State, call *ast.CallExpr, to types.Type) Term {
	x := vc.eval(st, call.Args[0])
	from := vc.typeOf(call.Args[0])
	ts := sortOfType(to)
	if isInterface(to) {
		return vc.convertTo(st, x, from, to)
	}
	if x.Sort == SInt && ts == SInt {
		// integer conversions wrap
		flo, fhi, fok := intRange(from)
		tlo, thi, tok := intRange(to)
		if fok && tok {
			if cmpBig(tlo, flo) <= 0 && cmpBig(fhi, thi) <= 0 {
				return x
			}
			// wrap into target range
			width := widthOf(to)
			if tlo == "0" {
				return app(SInt, "mod", x, pow2(width))
			}
			half := pow2(width - 1)
			return app(SInt, "-", app(SInt, "mod", app(SInt, "+", x, half), pow2(width)), half)
		}
		return x
	}
	if x.Sort == ts {
		if ts == SSlc || ts == SStr || ts == SBool {
			return x
		}
	}
	// string <-> []byte, int <-> float etc.
	name := fmt.Sprintf("conv_%s_to_%s", sortKey(x.Sort), sortKey(ts))
	if x.Sort == SSlc {
		// depends on the contents
		es := "Int"
		return vc.uf(name, ts, Select(vc.elems(st, es), sbase(x)), soff(x), slen(x))
	}
	if ts == SSlc {
		r := vc.fresh("convslice", SSlc)
		if x.Sort == SStr {
			st.assume(Eq(slen(r), app(SInt, "str.len", x)))
		}
		return r
	}
	return vc.uf(name, ts, x)
}

func widthOf(t types.Type) int64 {
	b := types.Unalias(t).Underlying().(*types.Basic)
	switch b.Kind() {
	case types.Int8, types.Uint8:
		return 8
	case types.Int16, types.Uint16:
		return 16
	case types.Int32, types.Uint32:
		return 32
	}
	return 64
}

func cmpBig(a, b string) int {
	na, nb := strings.HasPrefix(a, "-"), strings.HasPrefix(b, "-")
	switch {
	case na && !nb:
		return -1
	case !na && nb:
		return 1
	case na && nb:
		return -cmpBig(a[1:], b[1:])
	}
	if len(a) != len(b) {
		if len(a) < len(b) {
			return -1
		}
		return 1
	}
	return strings.Compare(a, b)
}

func (vc *VC) evalBuiltin(st *State, call *ast.CallExpr, name string) []Term {
	switch name {
	case "len", "cap":
		x := vc.eval(st, call.Args[0])
		switch x.Sort {
		case SSlc:
			st.assume(app(SBool, ">=", slen(x), IntLit(0)))
			if name == "cap" {
				c := vc.uf("capof", SInt, x)
				st.assume(app(SBool, ">=", c, slen(x)))
				return []Term{c}
			}
			return []Term{slen(x)}
		case SStr:
			return []Term{app(SInt, "str.len", x)}
		}
		t := vc.typeOf(call.Args[0])
		if m, ok := types.Unalias(t).Underlying().(*types.Map); ok {
			ks, vs := sortOfType(m.Key()), sortOfType(m.Elem())
			l := vc.uf("maplen_"+sortKey(ks), SInt, Select(vc.mapDom(st, ks, vs), x))
			st.assume(app(SBool, ">=", l, IntLit(0)))
			return []Term{l}
		}
		l := vc.fresh("len", SInt)
		st.assume(app(SBool, ">=", l, IntLit(0)))
		return []Term{l}
	case "min", "max":
		x := vc.eval(st, call.Args[0])
		for _, a := range call.Args[1:] {
			y := vc.eval(st, a)
			if x.Sort == SInt {
				x = app(SInt, "i"+name, x, y)
			} else {
				x = vc.uf(name+"_"+sortKey(x.Sort), x.Sort, x, y)
			}
		}
		return []Term{x}
	case "append":
		s := vc.eval(st, call.Args[0])
		t := vc.typeOf(call).Underlying().(*types.Slice)
		es := sortOfType(t.Elem())
		if call.Ellipsis.IsValid() {
			o := vc.eval(st, call.Args[1])
			// result: fresh backing array with s's then o's elements
			r := vc.freshRef(st, "append")
			eh := vc.elems(st, es)
			arr := vc.fresh("appended", arrSort(SInt, es))
			n1 := slen(s)
			if o.Sort == SStr {
				ln := app(SInt, "+", n1, app(SInt, "str.len", o))
				vc.heapSet(st, elemsName(es), Store(eh, r, arr))
				return []Term{{fmt.Sprintf("(mkslc %s 0 %s)", r.S, ln.S), SSlc}}
			}
			src := Select(eh, sbase(s))
			osrc := Select(eh, sbase(o))
			vc.emit(fmt.Sprintf("(assert (forall ((i Int)) (! (=> (and (<= 0 i) (< i %s)) (= (select %s i) (select %s (+ %s i)))) :pattern ((select %s i)))))", n1.S, arr.S, src.S, soff(s).S, arr.S))
			vc.emit(fmt.Sprintf("(assert (forall ((i Int)) (! (=> (and (<= %s i) (< i (+ %s %s))) (= (select %s i) (select %s (+ %s (- i %s))))) :pattern ((select %s i)))))", n1.S, n1.S, slen(o).S, arr.S, osrc.S, soff(o).S, n1.S, arr.S))
			st.assume(And(app(SBool, ">=", n1, IntLit(0)), app(SBool, ">=", slen(o), IntLit(0))))
			vc.heapSet(st, elemsName(es), Store(eh, r, arr))
			return []Term{{fmt.Sprintf("(mkslc %s 0 (+ %s %s))", r.S, n1.S, slen(o).S), SSlc}}
		}
		var vals []Term
		for _, a := range call.Args[1:] {
			vals = append(vals, vc.convertTo(st, vc.evalCopy(st, a), vc.typeOf(a), t.Elem()))
		}
		if len(vals) == 0 {
			return []Term{s}
		}
		// model: the result is a fresh backing array (reallocation); the original is untouched.
		r := vc.freshRef(st, "append")
		eh := vc.elems(st, es)
		n1 := slen(s)
		st.assume(app(SBool, ">=", n1, IntLit(0)))
		arr := vc.fresh("appended", arrSort(SInt, es))
		src := Select(eh, sbase(s))
		vc.emit(fmt.Sprintf("(assert (forall ((i Int)) (! (=> (and (<= 0 i) (< i %s)) (= (select %s i) (select %s (+ %s i)))) :pattern ((select %s i)))))", n1.S, arr.S, src.S, soff(s).S, arr.S))
		for i, v := range vals {
			if v.Sort != es {
				v = vc.fresh("appv", es)
			}
			vc.emit(fmt.Sprintf("(assert (= (select %s (+ %s %d)) %s))", arr.S, n1.S, i, v.S))
		}
		vc.heapSet(st, elemsName(es), vc.nameTerm("elems", Store(eh, r, arr)))
		return []Term{{fmt.Sprintf("(mkslc %s 0 (+ %s %d))", r.S, n1.S, len(vals)), SSlc}}
	case "make":
		t := vc.typeOf(call)
		switch u := types.Unalias(t).Underlying().(type) {
		case *types.Slice:
			n := vc.eval(st, call.Args[1])
			if vc.safe {
				vc.assert(st, vc.oblName("make", exprText(vc, call)), "safety", call.Pos(), exprText(vc, call), And(app(SBool, ">=", n, IntLit(0)), app(SBool, "<=", n, vc.makeBound(st))))
			}
			st.assume(app(SBool, ">=", n, IntLit(0)))
			es := sortOfType(u.Elem())
			r := vc.freshRef(st, "make")
			eh := vc.elems(st, es)
			vc.heapSet(st, elemsName(es), vc.nameTerm("elems", Store(eh, r, zeroOfSort(arrSort(SInt, es)))))
			return []Term{{fmt.Sprintf("(mkslc %s 0 %s)", r.S, n.S), SSlc}}
		case *types.Map:
			r := vc.freshRef(st, "map")
			ks, vs := sortOfType(u.Key()), sortOfType(u.Elem())
			doms := vc.mapDom(st, ks, vs)
			vc.heapSet(st, mapDomName(ks, vs), vc.nameTerm("mapdom", Store(doms, r, zeroOfSort(arrSort(ks, SBool)))))
			for _, a := range call.Args[1:] {
				vc.eval(st, a)
			}
			return []Term{r}
		case *types.Chan:
			for _, a := range call.Args[1:] {
				vc.eval(st, a)
			}
			return []Term{vc.freshRef(st, "chan")}
		}
	case "new":
		t := vc.typeOf(call).Underlying().(*types.Pointer).Elem()
		if isStructVal(t) {
			return []Term{vc.allocStruct(st, t, nil)}
		}
		r := vc.freshRef(st, "new")
		srt := sortOfType(t)
		name := "Box$" + sortKey(srt)
		h := vc.heapGet(st, name, arrSort(SInt, srt))
		vc.heapSet(st, name, Store(h, r, zeroOfSort(srt)))
		return []Term{r}
	case "delete":
		m := vc.eval(st, call.Args[0])
		k := vc.eval(st, call.Args[1])
		mt := types.Unalias(vc.typeOf(call.Args[0])).Underlying().(*types.Map)
		vc.mapDelete(st, m, k, sortOfType(mt.Elem()))
		return nil
	case "clear":
		m := vc.eval(st, call.Args[0])
		if mt, ok := types.Unalias(vc.typeOf(call.Args[0])).Underlying().(*types.Map); ok {
			ks, vs := sortOfType(mt.Key()), sortOfType(mt.Elem())
			doms := vc.mapDom(st, ks, vs)
			vc.heapSet(st, mapDomName(ks, vs), vc.nameTerm("mapdom", Store(doms, m, zeroOfSort(arrSort(ks, SBool)))))
			return nil
		}
		vc.havocHeap(st, "clear")
		return nil
	case "copy":
		d := vc.eval(st, call.Args[0])
		s := vc.eval(st, call.Args[1])
		n := vc.fresh("copied", SInt)
		if s.Sort == SSlc {
			st.assume(Eq(n, app(SInt, "imin", slen(d), slen(s))))
		} else {
			st.assume(Eq(n, app(SInt, "imin", slen(d), app(SInt, "str.len", s))))
		}
		// contents of the destination's backing array change
		t := vc.typeOf(call.Args[0]).Underlying().(*types.Slice)
		es := sortOfType(t.Elem())
		eh := vc.elems(st, es)
		vc.heapSet(st, elemsName(es), Store(eh, sbase(d), vc.fresh("copydst", arrSort(SInt, es))))
		return []Term{n}
	case "panic":
		for _, a := range call.Args {
			vc.eval(st, a)
		}
		if vc.safe {
			vc.assert(st, vc.oblName("panic", ""), "safety", call.Pos(), exprText(vc, call), TFalse)
		}
		st.pc = TFalse
		return nil
	case "recover":
		return []Term{IntLit(0)}
	case "close":
		ch := vc.eval(st, call.Args[0])
		closed := vc.heapGet(st, "ghost$chanClosed", arrSort(SInt, SBool))
		if vc.safe {
			vc.assert(st, vc.oblName("close", exprText(vc, call.Args[0])), "safety", call.Pos(), "close of a closed or nil channel panics", And(Not(Eq(ch, IntLit(0))), Not(Select(closed, ch))))
		}
		vc.heapSet(st, "ghost$chanClosed", vc.nameTerm("chanClosed", Store(closed, ch, TTrue)))
		return nil
	case "print", "println":
		return nil
	}
	vc.note("unsupported builtin %s", name)
	vc.havocHeap(st, "builtin")
	return vc.freshResults(st, call, name)
}

func (vc *VC) makeBound(st *State) Term {
	if t, ok := st.heap["gl$makeBound"]; ok {
		return t
	}
	return BigLit("9223372036854775807")
}

func (vc *VC) protoGetter(st *State, call *ast.CallExpr, fn *types.Func, recv Term) ([]Term, bool) {
	sig := fn.Type().(*types.Signature)
	rt := sig.Recv().Type()
	s := structOf(rt)
	if s == nil {
		return nil, false
	}
	fname := strings.TrimPrefix(fn.Name(), "Get")
	for i := 0; i < s.NumFields(); i++ {
		f := s.Field(i)
		if f.Name() == fname && sig.Results().Len() == 1 && types.Identical(f.Type(), sig.Results().At(0).Type()) {
			v := vc.readField(st, recv, rt, f)
			return []Term{Ite(Eq(recv, IntLit(0)), zeroOfSort(v.Sort), v)}, true
		}
	}
	return nil, false
}

// libraryCall models selected library functions. ok=false means "not modelled here".
func (vc *VC) libraryCall(st *State, call *ast.CallExpr, key string, fn *types.Func, recv *Term, args []Term) ([]Term, bool) {
	if isObservability(key, fn) {
		return vc.zeroResults(call), true
	}
	pkg := ""
	if fn.Pkg() != nil {
		pkg = fn.Pkg().Path()
	}
	a := func(i int) Term {
		if i < len(args) {
			return args[i]
		}
		return IntLit(0)
	}
	one := func(t Term) ([]Term, bool) { return []Term{t}, true }
	switch key {
	case "strings.HasPrefix":
		return one(app(SBool, "str.prefixof", a(1), a(0)))
	case "strings.HasSuffix":
		return one(app(SBool, "str.suffixof", a(1), a(0)))
	case "strings.Contains":
		return one(app(SBool, "str.contains", a(0), a(1)))
	case "strings.ToLower":
		return one(vc.uf("str_lower", SStr, a(0)))
	case "strings.ToUpper":
		return one(vc.uf("str_upper", SStr, a(0)))
	case "strings.TrimSpace":
		return one(vc.uf("str_trimspace", SStr, a(0)))
	case "strings.EqualFold":
		return one(Eq(vc.uf("str_lower", SStr, a(0)), vc.uf("str_lower", SStr, a(1))))
	case "strings.TrimPrefix":
		return one(Ite(app(SBool, "str.prefixof", a(1), a(0)), app(SStr, "str.substr", a(0), app(SInt, "str.len", a(1)), app(SInt, "-", app(SInt, "str.len", a(0)), app(SInt, "str.len", a(1)))), a(0)))
	case "strings.TrimSuffix":
		return one(Ite(app(SBool, "str.suffixof", a(1), a(0)), app(SStr, "str.substr", a(0), IntLit(0), app(SInt, "-", app(SInt, "str.len", a(0)), app(SInt, "str.len", a(1)))), a(0)))
	case "strings.Index":
		return one(app(SInt, "str.indexof", a(0), a(1), IntLit(0)))
	case "errors.Is":
		return one(Term{fmt.Sprintf("(errIs %s %s)", a(0).S, a(1).S), SBool})
	case "errors.New":
		r := vc.fresh("err", SInt)
		st.assume(app(SBool, ">", r, IntLit(0)))
		return one(r)
	case "fmt.Errorf":
		r := vc.fresh("err", SInt)
		st.assume(app(SBool, ">", r, IntLit(0)))
		// %w wrapping: errIs(r, wrapped) when the wrapped error is an argument
		if len(call.Args) > 0 {
			if tv, ok := vc.info().Types[call.Args[0]]; ok && tv.Value != nil && strings.Contains(tv.Value.ExactString(), "%w") {
				for i, ar := range call.Args[1:] {
					if t := vc.typeOf(ar); t != nil && isErrorType(t) {
						// variadic args were packed into a slice: re-evaluate the argument expression
						w := vc.eval(st, call.Args[1+i])
						st.assume(vc.wrapFact(r, w))
					}
				}
			}
		}
		return one(r)
	case "fmt.Sprintf", "fmt.Sprint", "fmt.Sprintln":
		return one(vc.fresh("sprintf", SStr))
	case "time.Now":
		// idealised clock: only sleeps and timers advance it; computation and lock
		// acquisition take zero time (listed assumption)
		return one(vc.heapGetDefault(st, "gl$$now", vc.initialNow()))
	case "time.Since":
		return one(app(SInt, "-", vc.heapGetDefault(st, "gl$$now", vc.initialNow()), a(0)))
	case "time.Sleep":
		now := vc.heapGetDefault(st, "gl$$now", vc.initialNow())
		t := vc.fresh("now", SInt)
		vc.ensureSlack()
		st.assume(app(SBool, ">=", t, app(SInt, "+", now, app(SInt, "imax", a(0), IntLit(0)))))
		st.assume(app(SBool, "<=", t, app(SInt, "+", app(SInt, "+", now, app(SInt, "imax", a(0), IntLit(0))), Term{"time$slack", SInt})))
		st.heap["gl$$now"] = t
		return nil, true
	case "(time.Time).Sub":
		return one(app(SInt, "-", *recv, a(0)))
	case "(time.Time).Add":
		return one(app(SInt, "+", *recv, a(0)))
	case "(time.Time).After":
		return one(app(SBool, ">", *recv, a(0)))
	case "(time.Time).Before":
		return one(app(SBool, "<", *recv, a(0)))
	case "(time.Time).Equal":
		return one(Eq(*recv, a(0)))
	case "(time.Time).IsZero":
		return one(Eq(*recv, IntLit(0)))
	case "(time.Time).UnixNano":
		return one(*recv)
	case "(time.Duration).Nanoseconds":
		return one(*recv)
	case "(time.Duration).Milliseconds":
		return one(app(SInt, "gdiv", *recv, IntLit(1000000)))
	case "(time.Duration).String", "(time.Time).String":
		return one(vc.fresh("str", SStr))
	case "(error).Error":
		return one(vc.uf("errmsg", SStr, *recv))
	case "strconv.Itoa":
		return one(vc.uf("itoa", SStr, a(0)))
	case "strconv.FormatUint", "strconv.FormatInt":
		return one(vc.uf("fmtint", SStr, a(0), a(1)))
	case "path/filepath.Ext":
		return one(vc.uf("pathext", SStr, a(0)))
	case "path/filepath.Join":
		// variadic packed: args[0] is the slice
		return one(vc.uf("pathjoin", SStr, Select(vc.elems(st, SStr), sbase(a(0))), slen(a(0))))
	case "os.Exit":
		st.pc = TFalse
		return nil, true
	}
	if pkg == "log" && (strings.Contains(fn.Name(), "Fatal") || strings.Contains(fn.Name(), "Panic")) {
		st.pc = TFalse
		return nil, true
	}
	if pkg == "sync/atomic" {
		// shared cells: loads return arbitrary values; an atomic operation writes its own cell only
		vc.havocPackageFields(st, pkg)
		return vc.freshResults(st, call, fn.Name()), true
	}
	if pkg == "sync" {
		// synchronisation points: what other goroutines did becomes visible
		vc.havocExternalHeap(st)
		return vc.freshResults(st, call, fn.Name()), true
	}
	if libraryPure(key, fn) {
		vc.note("library call %s: result unknown", key)
		return vc.freshResults(st, call, fn.Name()), true
	}
	return nil, false
}

func (vc *VC) wrapFact(r, w Term) Term {
	// r wraps w: errors.Is(r, t) holds whenever errors.Is(w, t) holds
	if !vc.ufs["wraps"] {
		vc.ufs["wraps"] = true
		vc.emit("(declare-fun wraps (Int Int) Bool)")
		vc.emit("(assert (forall ((r Int) (w Int) (t Int)) (! (=> (and (wraps r w) (errIs w t)) (errIs r t)) :pattern ((wraps r w) (errIs w t)))))")
		vc.emit("(assert (forall ((r Int) (w Int) (t Int)) (! (=> (and (wraps r w) (errIs r t) (not (= r t))) (errIs w t)) :pattern ((wraps r w) (errIs r t)))))")
	}
	return Term{fmt.Sprintf("(wraps %s %s)", r.S, w.S), SBool}
}

func (vc *VC) initialNow() Term {
	if !vc.ufs["time$now0"] {
		vc.ufs["time$now0"] = true
		vc.emit("(declare-const time$now0 Int)")
		vc.emit("(assert (> time$now0 0))")
	}
	return Term{"time$now0", SInt}
}

func (vc *VC) ensureSlack() {
	if !vc.ufs["time$slack"] {
		vc.ufs["time$slack"] = true
		vc.emit("(declare-const time$slack Int)")
		vc.emit("(assert (>= time$slack 0))")
	}
}

func (vc *VC) zeroResults(call *ast.CallExpr) []Term {
	var out []Term
	for _, t := range vc.resultTypes(call) {
		out = append(out, vc.fresh("obs", sortOfType(t)))
	}
	return out
}
