package main

// Go expression evaluation to SMT terms.

import (
	"fmt"
	"go/ast"
	"go/constant"
	"go/token"
	"go/types"
	"math/big"
	"strings"
)

var heapPkg = map[string]string{} // heap name -> owning package path

func (vc *VC) fieldName(structT types.Type, f *types.Var) string {
	n := fieldHeapName(structT, f.Name())
	if f.Pkg() != nil {
		heapPkg[n] = f.Pkg().Path()
	}
	switch types.Unalias(f.Type()).Underlying().(type) {
	case *types.Pointer, *types.Chan, *types.Map:
		heapRefLike[n] = true
	}
	if isStructVal(f.Type()) {
		heapStructVal[n] = true
	}
	return n
}

// heapStructVal: field arrays that hold the identity of a struct embedded by value. The identity
// of an embedded struct is its address, which no call can change: a full heap havoc (which also
// havocs the contents of every struct) leaves these arrays alone.
var heapStructVal = map[string]bool{}

// heapRefLike: field arrays whose values are references (pointers, channels, maps); on entry
// every such value was allocated before the call, i.e. is <= alloc$base.
var heapRefLike = map[string]bool{}

func (vc *VC) readField(st *State, base Term, structT types.Type, f *types.Var) Term {
	name := vc.fieldName(structT, f)
	srt := sortOfType(f.Type())
	h := vc.heapGet(st, name, arrSort(SInt, srt))
	v := Select(h, base)
	vc.assumeAllocated(st, v, f.Type())
	if srt == SInt && isBasicInt(f.Type()) && !strings.Contains(v.S, "q$") {
		// typed memory: an integer field holds a value of its type
		st.assume(vc.rangeFact(f.Type(), v))
	}
	if srt == SSlc && !strings.Contains(v.S, "q$") {
		// typed memory: a slice field holds a slice (length is a non-negative int)
		st.assume(vc.rangeFact(f.Type(), v))
	}
	return v
}

// assumeAllocated: a reference (or the backing array of a slice) obtained from the heap or from a
// call denotes an object that exists now: it is not one of the references this activation will
// allocate later (own allocations are numbered alloc$base+1, +2, ...; all foreign objects, whenever
// created, are numbered at or below alloc$base).
func (vc *VC) assumeAllocated(st *State, v Term, t types.Type) {
	if t == nil || strings.Contains(v.S, "q$") {
		return
	}
	var lhs Term
	if v.Sort == SSlc {
		lhs = sbase(v)
	} else if v.Sort == SInt {
		switch types.Unalias(t).Underlying().(type) {
		case *types.Pointer, *types.Map, *types.Chan:
			lhs = v
		default:
			return
		}
	} else {
		return
	}
	lim := app(SInt, "+", Term{"alloc$base", SInt}, vc.heapGetDefault(st, "gl$$nalloc", IntLit(0)))
	st.assume(app(SBool, "<=", lhs, lim))
}

func (vc *VC) writeField(st *State, base Term, structT types.Type, f *types.Var, v Term) {
	name := vc.fieldName(structT, f)
	srt := sortOfType(f.Type())
	h := vc.heapGet(st, name, arrSort(SInt, srt))
	vc.heapSet(st, name, vc.nameTerm(name, Store(h, base, v)))
}

func elemsName(srt string) string { return "Elems$" + sortKey(srt) }

func (vc *VC) elems(st *State, srt string) Term {
	return vc.heapGet(st, elemsName(srt), arrSort(SInt, arrSort(SInt, srt)))
}

func sbase(s Term) Term { return Term{"(sbase " + s.S + ")", SInt} }
func soff(s Term) Term  { return Term{"(soff " + s.S + ")", SInt} }
func slen(s Term) Term  { return Term{"(slen " + s.S + ")", SInt} }

func add(a, b Term) Term {
	if a.S == "0" {
		return b
	}
	if b.S == "0" {
		return a
	}
	return app(SInt, "+", a, b)
}

func (vc *VC) sliceIndex(st *State, s Term, i Term, elemSort string) Term {
	es := vc.elems(st, elemSort)
	return Select(Select(es, sbase(s)), add(soff(s), i))
}

func (vc *VC) sliceStore(st *State, s Term, i Term, v Term) {
	es := vc.elems(st, v.Sort)
	inner := Select(es, sbase(s))
	vc.heapSet(st, elemsName(v.Sort), vc.nameTerm("elems", Store(es, sbase(s), Store(inner, add(soff(s), i), v))))
}

func mapDomName(k, v string) string { return "MapDom$" + sortKey(k) + "$" + sortKey(v) }
func mapValName(k, v string) string { return "MapVal$" + sortKey(k) + "$" + sortKey(v) }

func (vc *VC) mapDom(st *State, k, v string) Term {
	return vc.heapGet(st, mapDomName(k, v), arrSort(SInt, arrSort(k, SBool)))
}
func (vc *VC) mapVal(st *State, k, v string) Term {
	return vc.heapGet(st, mapValName(k, v), arrSort(SInt, arrSort(k, v)))
}

func (vc *VC) mapLookup(st *State, m Term, key Term, vsort string) (val Term, ok Term) {
	dom := Select(vc.mapDom(st, key.Sort, vsort), m)
	vals := Select(vc.mapVal(st, key.Sort, vsort), m)
	ok = And(Not(Eq(m, IntLit(0))), Select(dom, key))
	val = Ite(ok, Select(vals, key), zeroOfSort(vsort))
	return
}

func (vc *VC) mapStore(st *State, m Term, key Term, v Term) {
	dn, vn := mapDomName(key.Sort, v.Sort), mapValName(key.Sort, v.Sort)
	doms := vc.mapDom(st, key.Sort, v.Sort)
	valsA := vc.mapVal(st, key.Sort, v.Sort)
	vc.heapSet(st, dn, vc.nameTerm("mapdom", Store(doms, m, Store(Select(doms, m), key, TTrue))))
	vc.heapSet(st, vn, vc.nameTerm("mapval", Store(valsA, m, Store(Select(valsA, m), key, v))))
}

func (vc *VC) mapDelete(st *State, m Term, key Term, vsort string) {
	dn := mapDomName(key.Sort, vsort)
	doms := vc.mapDom(st, key.Sort, vsort)
	vc.heapSet(st, dn, vc.nameTerm("mapdom", Store(doms, m, Store(Select(doms, m), key, TFalse))))
}

var refCounter int

func isRqliteType(t types.Type) bool {
	t = types.Unalias(t)
	if n, ok := t.(*types.Named); ok {
		return n.Obj().Pkg() != nil && isRqlitePkg(n.Obj().Pkg().Path())
	}
	return true // anonymous struct
}

// freshRef allocates a fresh non-nil reference distinct from the other fresh refs of this VC.
func (vc *VC) freshRef(st *State, hint string) Term {
	// refs allocated in this function are numbered: alloc$base + n, n = 1, 2, ...
	cnt := vc.heapGetDefault(st, "gl$$nalloc", IntLit(0))
	var n Term
	if k, ok := litInt(cnt); ok {
		n = IntLit(k + 1)
	} else {
		n = vc.nameTerm("nalloc", add(cnt, IntLit(1)))
	}
	st.heap["gl$$nalloc"] = n
	return app(SInt, "+", Term{"alloc$base", SInt}, n)
}

func (vc *VC) heapGetDefault(st *State, name string, def Term) Term {
	if t, ok := st.heap[name]; ok {
		return t
	}
	if _, ok := vc.universe[name]; !ok {
		vc.universe[name] = def.Sort
	}
	st.heap[name] = def
	return def
}

func constTerm(v constant.Value, t types.Type) (Term, bool) {
	switch v.Kind() {
	case constant.Bool:
		if constant.BoolVal(v) {
			return TTrue, true
		}
		return TFalse, true
	case constant.String:
		return StrLit(constant.StringVal(v)), true
	case constant.Int:
		if sortOfType(t) == SF64 {
			return Term{"f64c_" + sanitize(v.ExactString()), SF64}, true
		}
		return BigLit(v.ExactString()), true
	case constant.Float:
		if sortOfType(t) == SInt {
			if i, ok := constant.Val(constant.ToInt(v)).(*big.Int); ok {
				return BigLit(i.String()), true
			}
			if i, ok := constant.Int64Val(constant.ToInt(v)); ok {
				return IntLit(i), true
			}
		}
		return Term{"f64c_" + sanitize(v.ExactString()), SF64}, true
	}
	return Term{}, false
}

func (vc *VC) unknown(hint string, t types.Type) Term {
	return vc.fresh("unk$"+hint, sortOfType(t))
}

func (vc *VC) typeOf(e ast.Expr) types.Type {
	if tv, ok := vc.info().Types[e]; ok {
		return tv.Type
	}
	if id, ok := e.(*ast.Ident); ok {
		if o := vc.info().ObjectOf(id); o != nil {
			return o.Type()
		}
	}
	return nil
}

func (vc *VC) globalName(o types.Object) string {
	n := "G$" + shortPkg(o.Pkg().Path()) + "." + o.Name()
	heapPkg[n] = o.Pkg().Path()
	return n
}

func (vc *VC) readVar(st *State, o *types.Var) Term {
	if t, ok := st.vars[o]; ok {
		if vc.isBoxed(o) {
			srt := sortOfType(o.Type())
			return Select(vc.heapGet(st, "Box$"+sortKey(srt), arrSort(SInt, srt)), t)
		}
		return t
	}
	if o.Pkg() != nil && o.Parent() == o.Pkg().Scope() {
		// package-level variable
		name := vc.globalName(o)
		srt := sortOfType(o.Type())
		if isErrorType(o.Type()) || strings.HasPrefix(o.Name(), "Err") {
			// error sentinels are treated as constants: non-nil, pairwise distinct by name;
			// `var ErrX = otherpkg.ErrX` is the same sentinel as the one it is initialised from
			if a := vc.prog.sentinelAlias(o, 0); a != nil {
				name = vc.globalName(a)
			}
			return vc.sentinel(name)
		}
		return vc.heapGet(st, name, srt)
	}
	// a variable we have no value for (captured from an enclosing function not under analysis)
	if o.IsField() {
		return vc.unknown(o.Name(), o.Type())
	}
	t := vc.unknown(o.Name(), o.Type())
	st.vars[o] = t
	return t
}

func (vc *VC) sentinel(name string) Term {
	c := "sent$" + sanitize(name)
	if !vc.ufs[c] {
		vc.ufs[c] = true
		vc.emit(fmt.Sprintf("(declare-const %s Int)", c))
		vc.emit(fmt.Sprintf("(assert (> %s 0))", c))
		// distinct from previously declared sentinels
		for _, o := range vc.sentinels {
			vc.emit(fmt.Sprintf("(assert (not (= %s %s)))", c, o))
		}
		vc.sentinels = append(vc.sentinels, c)
	}
	return Term{c, SInt}
}

func (vc *VC) isBoxed(o types.Object) bool {
	for i := len(vc.frames) - 1; i >= 0; i-- {
		if vc.frames[i].boxed[o] {
			return true
		}
	}
	return false
}

func (vc *VC) writeVar(st *State, o *types.Var, v Term) {
	if t, ok := st.vars[o]; ok && vc.isBoxed(o) {
		name := "Box$" + sortKey(v.Sort)
		h := vc.heapGet(st, name, arrSort(SInt, v.Sort))
		vc.heapSet(st, name, Store(h, t, v))
		return
	}
	if _, ok := st.vars[o]; !ok && o.Pkg() != nil && o.Parent() == o.Pkg().Scope() {
		vc.heapSet(st, vc.globalName(o), v)
		return
	}
	st.vars[o] = vc.nameTerm(o.Name(), v)
}

// declareLocal introduces a local variable with value v (boxing if address-taken).
func (vc *VC) declareLocal(st *State, o types.Object, v Term) {
	if vc.isBoxed(o) {
		r := vc.freshRef(st, o.Name())
		name := "Box$" + sortKey(v.Sort)
		h := vc.heapGet(st, name, arrSort(SInt, v.Sort))
		vc.heapSet(st, name, Store(h, r, v))
		st.vars[o] = r
		return
	}
	st.vars[o] = vc.nameTerm(o.Name(), v)
}

// zeroValue returns the zero value of type t (allocating for struct values).
func (vc *VC) zeroValue(st *State, t types.Type) Term {
	if isStructVal(t) {
		return vc.allocStruct(st, t, nil)
	}
	if a, ok := types.Unalias(t).Underlying().(*types.Array); ok {
		r := vc.freshRef(st, "arr")
		es := sortOfType(a.Elem())
		e := vc.elems(st, es)
		vc.heapSet(st, elemsName(es), Store(e, r, zeroOfSort(arrSort(SInt, es))))
		return Term{fmt.Sprintf("(mkslc %s 0 %d)", r.S, a.Len()), SSlc}
	}
	return zeroOfSort(sortOfType(t))
}

func (vc *VC) allocStruct(st *State, t types.Type, init map[string]Term) Term {
	r := vc.freshRef(st, "obj")
	s := structOf(t)
	if s == nil {
		return r
	}
	for i := 0; i < s.NumFields(); i++ {
		f := s.Field(i)
		v, ok := init[f.Name()]
		if !ok {
			if isStructVal(f.Type()) && vc.depth < 3 && isRqliteType(f.Type()) {
				vc.depth++
				v = vc.allocStruct(st, f.Type(), nil)
				vc.depth--
			} else if isStructVal(f.Type()) {
				v = vc.freshRef(st, "opaque")
			} else {
				v = zeroOfSort(sortOfType(f.Type()))
			}
		}
		vc.writeField(st, r, t, f, v)
	}
	return r
}

func (vc *VC) copyStruct(st *State, t types.Type, src Term) Term {
	s := structOf(t)
	if s == nil {
		return src
	}
	r := vc.freshRef(st, "copy")
	for i := 0; i < s.NumFields(); i++ {
		f := s.Field(i)
		v := vc.readField(st, src, t, f)
		if isStructVal(f.Type()) && vc.depth < 3 && isRqliteType(f.Type()) {
			vc.depth++
			v = vc.copyStruct(st, f.Type(), v)
			vc.depth--
		}
		vc.writeField(st, r, t, f, v)
	}
	return r
}

// evalCopy evaluates e for use as a value that is stored/passed: struct values are copied
// unless e is itself a fresh value (literal, call result).
func (vc *VC) evalCopy(st *State, e ast.Expr) Term {
	v := vc.eval(st, e)
	t := vc.typeOf(e)
	if isStructVal(t) {
		switch ast.Unparen(e).(type) {
		case *ast.CompositeLit, *ast.CallExpr:
			return v
		}
		return vc.copyStruct(st, t, v)
	}
	return v
}

func (vc *VC) eval(st *State, e ast.Expr) Term {
	if t, ok := vc.preEval[e]; ok {
		return t
	}
	info := vc.info()
	if tv, ok := info.Types[e]; ok && tv.Value != nil {
		if t, ok := constTerm(tv.Value, tv.Type); ok {
			return t
		}
	}
	switch e := e.(type) {
	case *ast.ParenExpr:
		return vc.eval(st, e.X)
	case *ast.Ident:
		if e.Name == "_" {
			return vc.unknown("blank", vc.typeOf(e))
		}
		switch o := info.ObjectOf(e).(type) {
		case *types.Nil:
			return zeroOfSort(sortOfType(info.Types[e].Type))
		case *types.Var:
			return vc.readVar(st, o)
		case *types.Const:
			if t, ok := constTerm(o.Val(), o.Type()); ok {
				return t
			}
		case *types.Func:
			return vc.uf("fn$"+sanitize(funcKey(o)), SInt)
		}
		return vc.unknown(e.Name, vc.typeOf(e))
	case *ast.SelectorExpr:
		if sel, ok := info.Selections[e]; ok {
			switch sel.Kind() {
			case types.FieldVal:
				base := vc.eval(st, e.X)
				return vc.selectPath(st, base, sel.Recv(), sel.Index())
			default:
				// method value: deterministic function of the receiver
				r := vc.eval(st, e.X)
				if fn, ok := sel.Obj().(*types.Func); ok {
					return vc.uf("mv$"+sanitize(funcKey(fn)), SInt, r)
				}
				return vc.unknown("methodval", vc.typeOf(e))
			}
		}
		// qualified identifier
		switch o := info.Uses[e.Sel].(type) {
		case *types.Var:
			return vc.readVar(st, o)
		case *types.Const:
			if t, ok := constTerm(o.Val(), o.Type()); ok {
				return t
			}
		case *types.Func:
			return vc.uf("fn$"+sanitize(funcKey(o)), SInt)
		}
		return vc.unknown("sel", vc.typeOf(e))
	case *ast.StarExpr:
		p := vc.eval(st, e.X)
		t := vc.typeOf(e)
		if vc.safe {
			vc.assert(st, vc.oblName("nil", exprText(vc, e.X)), "safety", e.Pos(), "*"+exprText(vc, e.X), Not(Eq(p, IntLit(0))))
		}
		if isStructVal(t) {
			return p
		}
		srt := sortOfType(t)
		return Select(vc.heapGet(st, "Box$"+sortKey(srt), arrSort(SInt, srt)), p)
	case *ast.UnaryExpr:
		return vc.evalUnary(st, e)
	case *ast.BinaryExpr:
		return vc.evalBinary(st, e)
	case *ast.CallExpr:
		rs := vc.evalCall(st, e)
		if len(rs) == 0 {
			return vc.unknown("void", vc.typeOf(e))
		}
		return rs[0]
	case *ast.IndexExpr:
		return vc.evalIndex(st, e)
	case *ast.SliceExpr:
		return vc.evalSliceExpr(st, e)
	case *ast.CompositeLit:
		return vc.evalCompositeLit(st, e)
	case *ast.FuncLit:
		return vc.freshRef(st, "closure")
	case *ast.TypeAssertExpr:
		x := vc.eval(st, e.X)
		return vc.typeAssert(st, x, vc.typeOf(e.X), vc.typeOf(e), e)
	case *ast.BasicLit:
		return vc.unknown("lit", vc.typeOf(e))
	}
	vc.note("unsupported expression %T", e)
	return vc.unknown("expr", vc.typeOf(e))
}

func exprText(vc *VC, e ast.Expr) string {
	return nodeText(vc.prog.Fset, e)
}

// selectPath follows a field selection path (through embedded fields).
func (vc *VC) selectPath(st *State, base Term, recv types.Type, path []int) Term {
	cur := base
	t := recv
	for _, idx := range path {
		s := structOf(t)
		if s == nil {
			return vc.unknown("field", nil)
		}
		f := s.Field(idx)
		if vc.safe {
			if _, isPtr := types.Unalias(t).Underlying().(*types.Pointer); isPtr {
				vc.assert(st, vc.oblName("nil", f.Name()), "safety", token.NoPos, "."+f.Name(), Not(Eq(cur, IntLit(0))))
			}
		}
		vc.monitorReadCheck(st, cur, t, f)
		cur = vc.readField(st, cur, t, f)
		t = f.Type()
	}
	return cur
}

// monitorReadCheck: a field protected by a monitor is read by the code only while the mutex is
// held (otherwise the value read may be another thread's half-finished update, and nothing the
// contract says about it between Lock and Unlock holds any more). Objects allocated by this
// activation are exempt (constructors).
func (vc *VC) monitorReadCheck(st *State, base Term, rt types.Type, f *types.Var) {
	tc := vc.prog.DB.Types[typeName(rt)]
	if tc == nil || len(tc.Monitors) == 0 || vc.inSpec > 0 {
		return
	}
	for _, ms := range tc.Monitors {
		for _, p := range ms.Protects {
			if p != f.Name() {
				continue
			}
			held, ok := st.heap["gl$$held$"+ms.Mutex]
			if !ok {
				held = TFalse
			}
			fresh := app(SBool, ">", base, Term{"alloc$base", SInt})
			name := fmt.Sprintf("%s#lock-read[%s]", vc.fn.Key, f.Name())
			vc.oblCount[name]++
			if n := vc.oblCount[name]; n > 1 {
				name += fmt.Sprintf("#%d", n)
			}
			vc.assert(st, name, "lock", token.NoPos, "read of "+f.Name()+" requires "+ms.Mutex+" held", Or(held, fresh))
		}
	}
}

func (vc *VC) evalUnary(st *State, e *ast.UnaryExpr) Term {
	switch e.Op {
	case token.NOT:
		return Not(vc.eval(st, e.X))
	case token.SUB:
		x := vc.eval(st, e.X)
		if x.Sort == SInt {
			return app(SInt, "-", x)
		}
		return vc.uf("f64neg", SF64, x)
	case token.ADD:
		return vc.eval(st, e.X)
	case token.XOR:
		x := vc.eval(st, e.X)
		return vc.uf("bitnot", SInt, x)
	case token.AND:
		// address-of
		x := ast.Unparen(e.X)
		switch x := x.(type) {
		case *ast.CompositeLit:
			return vc.evalCompositeLit(st, x)
		case *ast.Ident:
			o, _ := vc.info().ObjectOf(x).(*types.Var)
			if o != nil {
				if isStructVal(o.Type()) {
					return vc.readVar(st, o)
				}
				if vc.isBoxed(o) {
					if t, ok := st.vars[o]; ok {
						return t
					}
				}
			}
		case *ast.SelectorExpr:
			t := vc.typeOf(x)
			if isStructVal(t) {
				return vc.eval(st, x)
			}
			// address of a scalar field: remember the escape; callers havoc after the call
			if sel, ok := vc.info().Selections[x]; ok && sel.Kind() == types.FieldVal {
				vc.eval(st, x.X)
				rt := sel.Recv()
				idx := sel.Index()
				for _, i := range idx[:len(idx)-1] {
					rt = structOf(rt).Field(i).Type()
				}
				f := structOf(rt).Field(idx[len(idx)-1])
				vc.escapes = append(vc.escapes, vc.fieldName(rt, f))
				return vc.freshRef(st, "addr")
			}
		case *ast.IndexExpr:
			t := vc.typeOf(x)
			if isStructVal(t) {
				return vc.eval(st, x)
			}
			vc.eval(st, x)
			vc.escapes = append(vc.escapes, elemsName(sortOfType(t)))
			return vc.freshRef(st, "addr")
		}
		vc.note("unsupported address-of %s", exprText(vc, e.X))
		vc.escapes = append(vc.escapes, "*")
		return vc.freshRef(st, "addr")
	case token.ARROW:
		ch := vc.eval(st, e.X)
		var pre *State
		if len(vc.anchoredNodes[e]) > 0 {
			pre = st.clone()
			vc.nodeAnchors(st, e, "before", nil, pre)
		}
		v := vc.chanRecv(st, ch, vc.typeOf(e))
		if pre != nil {
			vc.nodeAnchors(st, e, "after", []Term{v}, pre)
		}
		return v
	}
	vc.note("unsupported unary %s", e.Op)
	return vc.unknown("unary", vc.typeOf(e))
}

func hasEffectfulCall(vc *VC, e ast.Expr) bool {
	found := false
	ast.Inspect(e, func(n ast.Node) bool {
		if c, ok := n.(*ast.CallExpr); ok {
			if tv, ok := vc.info().Types[c.Fun]; ok && tv.IsType() {
				return true
			}
			if id, ok := ast.Unparen(c.Fun).(*ast.Ident); ok {
				if _, ok := vc.info().Uses[id].(*types.Builtin); ok && (id.Name == "len" || id.Name == "cap" || id.Name == "min" || id.Name == "max") {
					return true
				}
			}
			found = true
		}
		if u, ok := n.(*ast.UnaryExpr); ok && u.Op == token.ARROW {
			found = true
		}
		return !found
	})
	return found
}

func (vc *VC) evalBinary(st *State, e *ast.BinaryExpr) Term {
	switch e.Op {
	case token.LAND, token.LOR:
		l := vc.eval(st, e.X)
		guard := l
		if e.Op == token.LOR {
			guard = Not(l)
		}
		if !hasEffectfulCall(vc, e.Y) {
			// evaluate RHS under the guard (for safety obligations), no state change expected
			saved := st.pc
			st.assume(guard)
			r := vc.eval(st, e.Y)
			st.pc = saved
			if e.Op == token.LAND {
				return And(l, r)
			}
			return Or(l, r)
		}
		// RHS has effects: fork
		s1 := st.clone()
		s1.assume(guard)
		r := vc.eval(s1, e.Y)
		resObj := types.NewVar(token.NoPos, nil, "sc", types.Typ[types.Bool])
		s1.vars[resObj] = r
		s2 := st.clone()
		s2.assume(Not(guard))
		if e.Op == token.LAND {
			s2.vars[resObj] = TFalse
		} else {
			s2.vars[resObj] = TTrue
		}
		m := vc.merge([]*State{s1, s2})
		if m == nil {
			st.pc = TFalse
			return TFalse
		}
		res := m.vars[resObj]
		delete(m.vars, resObj)
		*st = *m
		return res
	}
	l := vc.eval(st, e.X)
	r := vc.eval(st, e.Y)
	return vc.binop(st, e.Op, l, r, vc.typeOf(e.X), e)
}

func pow2(n int64) Term {
	x := new(big.Int).Lsh(big.NewInt(1), uint(n))
	return BigLit(x.String())
}

func (vc *VC) binop(st *State, op token.Token, l, r Term, lt types.Type, at ast.Node) Term {
	// untyped nil compared with a slice
	if l.Sort == SSlc && r.Sort == SInt && r.S == "0" {
		r = zeroOfSort(SSlc)
	} else if r.Sort == SSlc && l.Sort == SInt && l.S == "0" {
		l = zeroOfSort(SSlc)
	}
	if l.Sort != r.Sort {
		// mixed (e.g. shifts with different int types are both Int); otherwise abstract
		if !(l.Sort == SInt && r.Sort == SInt) {
			vc.note("binop sort mismatch %s %s %s", l.Sort, op, r.Sort)
			switch op {
			case token.EQL, token.NEQ, token.LSS, token.LEQ, token.GTR, token.GEQ:
				return vc.fresh("cmp", SBool)
			}
			return vc.fresh("bin", l.Sort)
		}
	}
	switch op {
	case token.EQL, token.NEQ:
		var t Term
		if l.Sort == SSlc {
			// only nil comparisons are legal in Go
			t = Eq(sbase(l), sbase(r))
		} else if isStructVal(lt) {
			t = vc.structEq(st, lt, l, r)
		} else {
			t = Eq(l, r)
		}
		if op == token.NEQ {
			return Not(t)
		}
		return t
	}
	switch l.Sort {
	case SInt:
		switch op {
		case token.ADD:
			return app(SInt, "+", l, r)
		case token.SUB:
			return app(SInt, "-", l, r)
		case token.MUL:
			return app(SInt, "*", l, r)
		case token.QUO:
			if vc.safe {
				vc.assert(st, vc.oblName("div", ""), "safety", at.Pos(), "division", Not(Eq(r, IntLit(0))))
			}
			return app(SInt, "gdiv", l, r)
		case token.REM:
			if vc.safe {
				vc.assert(st, vc.oblName("div", ""), "safety", at.Pos(), "modulo", Not(Eq(r, IntLit(0))))
			}
			return app(SInt, "gmod", l, r)
		case token.LSS:
			return app(SBool, "<", l, r)
		case token.LEQ:
			return app(SBool, "<=", l, r)
		case token.GTR:
			return app(SBool, ">", l, r)
		case token.GEQ:
			return app(SBool, ">=", l, r)
		case token.SHL:
			if n, ok := litInt(r); ok && n >= 0 && n < 200 {
				return app(SInt, "*", l, pow2(n))
			}
			return vc.uf("shl", SInt, l, r)
		case token.SHR:
			if n, ok := litInt(r); ok && n >= 0 && n < 200 {
				return app(SInt, "div", l, pow2(n))
			}
			return vc.uf("shr", SInt, l, r)
		case token.AND:
			return vc.uf("bitand", SInt, l, r)
		case token.OR:
			return vc.uf("bitor", SInt, l, r)
		case token.XOR:
			return vc.uf("bitxor", SInt, l, r)
		case token.AND_NOT:
			return vc.uf("bitandnot", SInt, l, r)
		}
	case SStr:
		switch op {
		case token.ADD:
			return app(SStr, "str.++", l, r)
		case token.LSS:
			return app(SBool, "str.<", l, r)
		case token.LEQ:
			return app(SBool, "str.<=", l, r)
		case token.GTR:
			return app(SBool, "str.<", r, l)
		case token.GEQ:
			return app(SBool, "str.<=", r, l)
		}
	case SBool:
		// == and != handled above
	case SF64:
		switch op {
		case token.LSS:
			return vc.uf("f64lt", SBool, l, r)
		case token.LEQ:
			return Or(vc.uf("f64lt", SBool, l, r), Eq(l, r))
		case token.GTR:
			return vc.uf("f64lt", SBool, r, l)
		case token.GEQ:
			return Or(vc.uf("f64lt", SBool, r, l), Eq(l, r))
		case token.ADD:
			return vc.uf("f64add", SF64, l, r)
		case token.SUB:
			return vc.uf("f64sub", SF64, l, r)
		case token.MUL:
			return vc.uf("f64mul", SF64, l, r)
		case token.QUO:
			return vc.uf("f64div", SF64, l, r)
		}
	}
	vc.note("unsupported binop %s on %s", op, l.Sort)
	return vc.fresh("bin", l.Sort)
}

func litInt(t Term) (int64, bool) {
	var n int64
	if _, err := fmt.Sscanf(t.S, "%d", &n); err == nil && fmt.Sprint(n) == t.S {
		return n, true
	}
	return 0, false
}

func (vc *VC) structEq(st *State, t types.Type, a, b Term) Term {
	s := structOf(t)
	if s == nil || vc.depth > 2 {
		return vc.fresh("structeq", SBool)
	}
	var cs []Term
	for i := 0; i < s.NumFields(); i++ {
		f := s.Field(i)
		x, y := vc.readField(st, a, t, f), vc.readField(st, b, t, f)
		if isStructVal(f.Type()) {
			vc.depth++
			cs = append(cs, vc.structEq(st, f.Type(), x, y))
			vc.depth--
		} else if x.Sort == SSlc {
			cs = append(cs, vc.fresh("sliceeq", SBool))
		} else {
			cs = append(cs, Eq(x, y))
		}
	}
	return And(cs...)
}

func (vc *VC) evalIndex(st *State, e *ast.IndexExpr) Term {
	// generic instantiation f[T]
	if tv, ok := vc.info().Types[e.X]; ok {
		if _, isSig := tv.Type.Underlying().(*types.Signature); isSig {
			return vc.eval(st, e.X)
		}
	}
	xt := vc.typeOf(e.X)
	x := vc.eval(st, e.X)
	switch u := types.Unalias(xt).Underlying().(type) {
	case *types.Map:
		k := vc.eval(st, e.Index)
		v, _ := vc.mapLookup(st, x, k, sortOfType(u.Elem()))
		return v
	case *types.Slice, *types.Array:
		i := vc.eval(st, e.Index)
		vc.boundsCheck(st, x, i, e)
		ev := vc.sliceIndex(st, x, i, sortOfType(vc.typeOf(e)))
		if isProtoMsgPtr(vc.typeOf(e)) {
			st.assume(Not(Eq(ev, IntLit(0)))) // protobuf: repeated message fields hold no nil elements
		}
		vc.assumeAllocated(st, ev, vc.typeOf(e))
		return ev
	case *types.Pointer: // pointer to array
		i := vc.eval(st, e.Index)
		_ = i
	case *types.Basic:
		if u.Info()&types.IsString != 0 {
			i := vc.eval(st, e.Index)
			if vc.safe {
				vc.assert(st, vc.oblName("idx", exprText(vc, e)), "safety", e.Pos(), exprText(vc, e), And(app(SBool, "<=", IntLit(0), i), app(SBool, "<", i, app(SInt, "str.len", x))))
			}
			return app(SInt, "str.to_code", app(SStr, "str.at", x, i))
		}
	}
	vc.note("unsupported index on %s", xt)
	return vc.unknown("index", vc.typeOf(e))
}

func (vc *VC) boundsCheck(st *State, s Term, i Term, at ast.Expr) {
	c := And(app(SBool, "<=", IntLit(0), i), app(SBool, "<", i, slen(s)))
	if vc.safe {
		vc.assert(st, vc.oblName("idx", exprText(vc, at)), "safety", at.Pos(), exprText(vc, at), c)
	}
	st.assume(c)
}

func (vc *VC) evalSliceExpr(st *State, e *ast.SliceExpr) Term {
	xt := vc.typeOf(e.X)
	x := vc.eval(st, e.X)
	var lo, hi Term
	lo = IntLit(0)
	if e.Low != nil {
		lo = vc.eval(st, e.Low)
	}
	if x.Sort == SStr {
		if e.High != nil {
			hi = vc.eval(st, e.High)
		} else {
			hi = app(SInt, "str.len", x)
		}
		c := And(app(SBool, "<=", IntLit(0), lo), app(SBool, "<=", lo, hi), app(SBool, "<=", hi, app(SInt, "str.len", x)))
		if vc.safe {
			vc.assert(st, vc.oblName("slice", exprText(vc, e)), "safety", e.Pos(), exprText(vc, e), c)
		}
		st.assume(c)
		return app(SStr, "str.substr", x, lo, app(SInt, "-", hi, lo))
	}
	if x.Sort != SSlc {
		vc.note("unsupported slice expr on %s", xt)
		return vc.unknown("slice", vc.typeOf(e))
	}
	if e.High != nil {
		hi = vc.eval(st, e.High)
	} else {
		hi = slen(x)
	}
	// note: hi may legally exceed len up to cap; capacity is not modelled, so we require hi <= len
	// only when High is absent or safe mode is on.
	c := And(app(SBool, "<=", IntLit(0), lo), app(SBool, "<=", lo, hi))
	if vc.safe {
		vc.assert(st, vc.oblName("slice", exprText(vc, e)), "safety", e.Pos(), exprText(vc, e), And(c, app(SBool, "<=", hi, slen(x))))
	}
	st.assume(c)
	return Term{fmt.Sprintf("(mkslc %s %s %s)", sbase(x).S, add(soff(x), lo).S, app(SInt, "-", hi, lo).S), SSlc}
}

func (vc *VC) evalCompositeLit(st *State, e *ast.CompositeLit) Term {
	t := vc.typeOf(e)
	switch u := types.Unalias(t).Underlying().(type) {
	case *types.Struct:
		init := map[string]Term{}
		for i, el := range e.Elts {
			if kv, ok := el.(*ast.KeyValueExpr); ok {
				if id, ok := kv.Key.(*ast.Ident); ok {
					v := vc.evalCopy(st, kv.Value)
					for j := 0; j < u.NumFields(); j++ {
						if u.Field(j).Name() == id.Name {
							v = vc.convertTo(st, v, vc.typeOf(kv.Value), u.Field(j).Type())
						}
					}
					init[id.Name] = v
				}
			} else {
				init[u.Field(i).Name()] = vc.convertTo(st, vc.evalCopy(st, el), vc.typeOf(el), u.Field(i).Type())
			}
		}
		return vc.allocStruct(st, t, init)
	case *types.Slice, *types.Array:
		var elemT types.Type
		if s, ok := u.(*types.Slice); ok {
			elemT = s.Elem()
		} else {
			elemT = u.(*types.Array).Elem()
		}
		es := sortOfType(elemT)
		r := vc.freshRef(st, "lit")
		arr := zeroOfSort(arrSort(SInt, es))
		n := int64(0)
		for _, el := range e.Elts {
			var v Term
			if kv, ok := el.(*ast.KeyValueExpr); ok {
				if k, ok := vc.info().Types[kv.Key]; ok && k.Value != nil {
					if kk, ok := constant.Int64Val(k.Value); ok {
						n = kk
					}
				}
				v = vc.evalElt(st, kv.Value, elemT)
			} else {
				v = vc.evalElt(st, el, elemT)
			}
			arr = Store(arr, IntLit(n), v)
			n++
		}
		if a, ok := u.(*types.Array); ok {
			n = a.Len()
		}
		eh := vc.elems(st, es)
		vc.heapSet(st, elemsName(es), vc.nameTerm("elems", Store(eh, r, arr)))
		return Term{fmt.Sprintf("(mkslc %s 0 %d)", r.S, n), SSlc}
	case *types.Map:
		r := vc.freshRef(st, "map")
		ks, vs := sortOfType(u.Key()), sortOfType(u.Elem())
		doms := vc.mapDom(st, ks, vs)
		vc.heapSet(st, mapDomName(ks, vs), Store(doms, r, zeroOfSort(arrSort(ks, SBool))))
		for _, el := range e.Elts {
			if kv, ok := el.(*ast.KeyValueExpr); ok {
				k := vc.eval(st, kv.Key)
				v := vc.evalElt(st, kv.Value, u.Elem())
				vc.mapStore(st, r, k, v)
			}
		}
		return r
	}
	vc.note("unsupported composite literal %s", t)
	return vc.unknown("lit", t)
}

// evalElt evaluates a composite-literal element, handling elided types.
func (vc *VC) evalElt(st *State, e ast.Expr, elemT types.Type) Term {
	if cl, ok := e.(*ast.CompositeLit); ok && cl.Type == nil {
		return vc.evalCompositeLit(st, cl)
	}
	return vc.convertTo(st, vc.evalCopy(st, e), vc.typeOf(e), elemT)
}

// oblName builds an obligation name within the current function.
func (vc *VC) oblName(kind, what string) string {
	n := vc.fn.Key + "#" + kind
	if what != "" {
		n += "[" + what + "]"
	}
	// occurrence numbering for uniqueness
	vc.oblCount[n]++
	if c := vc.oblCount[n]; c > 1 {
		n += fmt.Sprintf("#%d", c)
	}
	return n
}
