#!/usr/bin/env python3
"""mkmut.py <prop> <name> <repo-relative-file> <expect-regex>  (old text and new text read from stdin separated by a line '====')
Writes selftest/<prop>/<name>.patch: a unified diff of the mutation against /repo's current file."""
import sys, difflib, os
prop, name, rel, expect = sys.argv[1:5]
old, new = sys.stdin.read().split('\n====\n')
new = new.rstrip('\n') if not new.endswith('\n\n') else new
old = old.rstrip('\n')
src = open('/repo/'+rel).read()
if src.count(old) != 1:
    sys.exit(f"old text occurs {src.count(old)} times in {rel}")
mut = src.replace(old, new)
d = ''.join(difflib.unified_diff(src.splitlines(True), mut.splitlines(True), 'a/'+rel, 'b/'+rel))
os.makedirs(f'/verif/selftest/{prop}', exist_ok=True)
open(f'/verif/selftest/{prop}/{name}.patch','w').write(f'# expect: {expect}\n'+d)
print('wrote', name)
