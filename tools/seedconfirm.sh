#!/bin/bash
# usage: tools/seedconfirm.sh <worktree-name> <seed-dir-name>
# Confirms, in the scratch worktree, that (1) the tree with the change builds, (2) the demo fails with
# the change, (3) passes without it, (4) the existing suite passes with the change (demo removed).
wt=/tmp/seed/$1; out=/verif/seeded/$2; log=$out/confirm.log
cd $wt || exit 2
: > $log
mkdir -p /tmp/seed/.aside
demos=$(cd $out/demo && find . -name '*_test.go' | sed 's|^\./||')
pkgs=$(for d in $demos; do echo ./$(dirname $d); done | sort -u)
names=$(for d in $demos; do grep -ho '^func Test[A-Za-z0-9_]*' $out/demo/$d | sed 's/func //'; done | paste -sd'|')
echo "demo tests: $names in $pkgs" >> $log
go build ./... >> $log 2>&1 && echo "BUILD ok" >> $log || echo "BUILD FAILED" >> $log
go test -vet=off -count=1 -timeout 10m -run "^($names)\$" $pkgs > $out/demo_with_change.log 2>&1; rc1=$?
echo "demo with change: rc=$rc1 (expect != 0)" >> $log
git diff HEAD -- . ':(exclude)*_test.go' > /tmp/seed/.aside/$1.patch; git apply -R /tmp/seed/.aside/$1.patch
go test -vet=off -count=1 -timeout 10m -run "^($names)\$" $pkgs > $out/demo_without_change.log 2>&1; rc2=$?
echo "demo without change: rc=$rc2 (expect 0)" >> $log
git apply /tmp/seed/.aside/$1.patch
mkdir -p /tmp/seed/.aside/$1; for d in $demos; do mv $d /tmp/seed/.aside/$1/$(echo $d | tr / _); done
go test -vet=off -count=1 -timeout 25m ./... > $out/suite_with_change.log 2>&1; rc3=$?
echo "existing suite with change: rc=$rc3 (expect 0); FAIL lines: $(grep -c '^--- FAIL\|^FAIL' $out/suite_with_change.log)" >> $log
for d in $demos; do mv /tmp/seed/.aside/$1/$(echo $d | tr / _) $d; done
grep -a '^--- FAIL\|^FAIL\|^ok' $out/suite_with_change.log | grep -av '^ok' >> $log
if [ $rc1 -ne 0 ] && [ $rc2 -eq 0 ] && [ $rc3 -eq 0 ]; then echo "CONFIRMED" >> $log; else echo "NOT CONFIRMED" >> $log; fi
tail -3 $log
