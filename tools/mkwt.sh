#!/bin/bash
# usage: tools/mkwt.sh <name>  -> creates scratch worktree /tmp/seed/<name> of /repo HEAD with
# the comment-only contract files removed (so a sub-agent sees nothing of the verification work)
set -e
n=$1; d=/tmp/seed/$n
git -C /repo worktree add --detach -f $d HEAD >/dev/null 2>&1
cd $d
find . -name zz_contracts_verif.go -delete
git -c user.name=s -c user.email=s@s commit -qam "scratch base" 
echo $d
