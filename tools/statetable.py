#!/usr/bin/env python3
"""Prints the markdown state table for DESIGN.md §13 from props/, evidence/, known_findings.json, selftest/, seeded/."""
import json, glob, os
V='/verif'
kf=json.load(open(f'{V}/known_findings.json'))['findings']
rows=[]
for f in sorted(glob.glob(f'{V}/props/C*.json')):
    c=json.load(open(f)); cid=c['id']
    ev={}
    try: ev=json.load(open(f'{V}/evidence/{cid}.json'))
    except Exception: pass
    cov=ev.get('coverage',{}) if isinstance(ev.get('coverage'),dict) else {}
    nobl=len(json.load(open(f'{V}/baseline/{cid}.json'))) if os.path.exists(f'{V}/baseline/{cid}.json') else 0
    fx=[k for k in kf if k['property']==cid and k['status']=='fixed']
    op=[k for k in kf if k['property']==cid and k['status']=='open']
    nm=len(glob.glob(f'{V}/selftest/{cid}/*.patch'))
    ns=len([d for d in glob.glob(f'{V}/seeded/{cid}-*')])
    rows.append(f"| {cid} | {len(c['functions'])} | {nobl} | {len(fx)} fixed ({', '.join(k.get('commit','') for k in fx)}){'' if fx else ''} / {len(op)} open | {nm} | {ns} |")
print("| id | functions under contract | obligations in the baseline | findings | must-fail mutations | seeded changes |")
print("|---|---|---|---|---|---|")
print("\n".join(rows))
