#!/bin/bash
# tools/seedverify.sh <id> <pkgdir> <run-regex> [seeddir]: verifies a seeded change in its scratch worktree:
# builds, existing package tests pass, the demo fails with the change and passes without it.
id=$1; pkg=$2; run=$3; sd=${4:-/tmp/seed/$id}
export GOFLAGS=-mod=mod GOPROXY=off GOSUMDB=off GOTOOLCHAIN=local PATH=/opt/veriftools/go1.26.8/bin:$PATH
cd $sd/wt || exit 2
git checkout -q -- . ; find . -name 'zz_seed_demo_test.go' -delete
git apply $sd/out/patch.diff || { echo "$id: patch does not apply"; exit 2; }
cp $sd/out/zz_seed_demo_test.go $pkg/zz_seed_demo_test.go
go build ./... || { echo "$id: BUILD FAILS"; exit 1; }
go test -vet=off -count=1 -timeout 900s $pkg > $sd/out/verify_pkgtests.log 2>&1; echo "$id: existing+demo package tests with change: exit $? (demo expected to fail)"
grep -E "^(--- FAIL|FAIL|ok)" $sd/out/verify_pkgtests.log | head -5
go test -vet=off -count=1 -timeout 300s -run "$run" $pkg > $sd/out/verify_demo_with.log 2>&1; echo "$id: demo with change: exit $?"
git apply -R $sd/out/patch.diff
go test -vet=off -count=1 -timeout 300s -run "$run" $pkg > $sd/out/verify_demo_without.log 2>&1; echo "$id: demo without change: exit $?"
git apply $sd/out/patch.diff
