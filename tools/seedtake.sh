#!/bin/bash
# usage: tools/seedtake.sh <worktree-name> <seed-dir-name>
# Collects the sub-agent's change from /tmp/seed/<worktree-name> into /verif/seeded/<seed-dir-name>/
# (patch.diff = non-test source change; demo test files copied).
set -e
wt=/tmp/seed/$1; out=/verif/seeded/$2
mkdir -p $out
cd $wt
git diff HEAD -- . ':(exclude)*_test.go' > $out/patch.diff
for f in $(git ls-files --others --exclude-standard; git diff HEAD --name-only -- '*_test.go'); do
  mkdir -p $out/demo/$(dirname $f); cp $f $out/demo/$f
done
echo "patch: $(grep -c '^diff' $out/patch.diff) files; demo: $(find $out/demo -type f | tr '\n' ' ')"
