#!/usr/bin/env python3
"""Writes seeded/<name>/meta.json from the table below + confirm.log; prints the DESIGN.md table."""
import json, os
T = [
 # name, property, needs, caught_by, first_result
 ("C09-flag-cleared-before-rename","C09","a failing os.Rename (or crash) between clearing FULL_NEEDED and installing the snapshot, then an incremental snapshot","(*snapshot.Sink).Close#assert@s.stc.SetDueNext[cleared-only-after-install]","caught"),
 ("C10-zero-crc-skips-check","C10","a stream header whose CRC field is 0 (optionally with a flipped payload byte)","(*snapshot.FullSink).Close#assert@sidecar.WriteFile[db-sidecar-crc], snapshot.Restore#ensures[db-verified], #assert@append[wal-checked]","caught"),
 ("C11-idle-close-outside-mutex","C11","idle-timeout forced close racing with Close() on the same stream (a second open stream for the silent form)","(*snapshot.LockingStreamer).checkIdle#inv@Unlock[once], #ensures[forced]","caught"),
 ("C12-full-snapshot-wals-unverified","C12","a full snapshot directory that also holds WAL files (installed from a peer), corruption in such a WAL, then a reap","(*snapshot.Store).checkCRCs#loop1-keep[db-files], #loop2-init[db-file]","caught"),
 ("C13-unified-shadowed-operr","C13","unified request with Transaction, a read-only-classified statement that fails when stepped (integer overflow, malformed JSON, nested BEGIN)","(*db.DB).RequestWithContext#loop1-keep[no-failure-survives]","caught"),
 ("C15-pragma-prefix-fastpath","C15","a tab / CR / LF between the PRAGMA keyword and the pragma name","db.IsBreakingPragma#ensures[iff-some-pattern]","caught"),
 ("C16-stale-args-swapped","C16","non-leader node, freshness > 0 with freshness_strict, follower behind with append-to-apply lag above the bound","(*store.Store).isStaleRead#ensures[rule]","caught"),
 ("C17-request-fastpath-rw-conn","C17","unified endpoint, level other than STRONG, multi-statement text whose first statement is read-only (two cooperating sites: store fast path + db classification)","(*store.Store).Request#assert@s.db.RequestWithContext[writes-only-via-log] (first run: only 'anchored obligation no longer generated'; the positive writers-frame obligation was added afterwards)","caught-weakly, strengthened"),
 ("C18-join-voter-anyperm","C18","credential holding only join-read-only / join-read-replica sends JOIN with Voter=true","(*cluster.Service).handleConn#assert@s.mgr.Join[authz]","caught"),
 ("C19-dup-perms-merge","C19","credentials file defining the same username twice, the later definition dropping a permission","(*auth.CredentialsStore).Load#loop2-keep[perms-prefix]","caught"),
 ("C20-timeout-conn-returned-to-pool","C20","a forwarded request hits its inter-node deadline, the leader answers late, another forwarded request reuses the pooled connection","(*cluster.Client).retry#assert@conn.Close[failed-exchange-conn-not-reused] (missed at first: Client.retry was not under contract; contract added)","missed, strengthened"),
 ("C23-retry-timer-lets-batches-overtake","C23","a transient execute failure and another batch arriving within the one-second retry window","(*http.Service).runQueue#assert@def:er[same-batch], #assert@s.proxy.Execute[same-request] (reported because the anchored calls moved into a new helper: structural, see DESIGN 12)","caught-structurally"),
 ("C24-write-send-outside-lock","C24","two truly parallel writers, one descheduled between Unlock and the channel send","(*queue.Queue).Write#assert@send:q.batchCh[sent-under-lock] (missed at first; obligation added together with the engine's locked() predicate and lock-read obligations)","missed, strengthened"),
 ("C28-seqnum-advanced-before-check","C28","an out-of-order or replayed chunk (rejected) followed by the chunk that now matches the corrupted position","(*command/chunking.Dechunker).WriteChunk#ensures[rejected-keeps-position] (missed at first; two-state postconditions added)","missed, strengthened"),
 ("C29-gz-pooled-buffer-alias","C29","two compressing Marshal calls overlapping between gzCompress returning and the bytes being copied into the log entry","command.gzCompress#ensures[owned-result] (missed at first; gzCompress put under contract with the engine's fresh() predicate and bytes.Buffer ownership spec)","missed, strengthened"),
 ("C31-retry-backoff-doubling","C31","the gate already held for more than a few hundred ms when Close is called","(*internal/rsync.CheckAndSet).BeginWithRetry#loop1-keep[tries]","caught"),
 ("C34-endwrite-signal-one","C34","at least two goroutines blocked in BeginReadBlocking/BeginWriteBlocking behind an active writer at EndWrite","(*internal/rsync.MultiRSW).EndWrite#ensures[wake]","caught"),
 ("C36-touch-skips-timer-at-zero","C36","exactly one Signal from the unthrottled state followed by idleness (two cooperating edits: touch() and the order in Signal())","(*store/throttler.Throttler).touch#ensures[rearm]","caught"),
 ("C37-provide-shadowed-err","C37","every one of the nRetries+1 Backup attempts failing (sustained fault)","(*store.Provider).Provide#ensures[nil-iff-backup-ok], #loop1-keep[count]","caught"),
 ("C35-negative-type-table-index","C35","a correctly framed Command whose type field is negative (10-byte varint), indexing a lookup table","(*cluster.Service).handleConn#idx[requestStats[t]] (a first proposed change, nil dereference in checkCommandPermAll, was rejected: the existing system_test fails with it)","caught"),
 ("C38-wait-on-applied-target","C38","a linearizable read that starts between commit and apply of a non-mutating entry (strong read / noop), nothing mutating after it","(*store.Store).waitForLinearizableRead#ensures[nil-means-all], #assert@s.fsmTarget.Subscribe[order-7-wait-readindex]","caught"),
 ("C01-orderby-flag-sticks","C01","random() visited after an ORDER BY term in the same statement (window function, upsert after INSERT..SELECT..ORDER BY, LIMIT/OFFSET)","not caught by the C01 check (the rewriter itself is C14, not under contract in this version): MISSED, recorded","missed (C14 not built)"),
 ("C21-gate-released-in-helper","C21","binary non-vacuum backup of a database larger than one copy buffer with a commit + snapshot landing between two chunks","(*store.Store).Backup#assert@io.Copy[copy-under-gate-or-from-scratch], #assert@os.Open[live-file-under-gate]","caught"),
 ("C22-load-no-full-needed","C22","write+snapshot, restart as a NEW process (clean fast start), load before any snapshot attempt, write, snapshot, then a node joining","(*store.Store).fsmApply#ensures[load-full] (fsmApply added to the C22 function list after this seed: it was under contract but counted under C38/C01 only)","caught (after routing)"),
 ("C25-batch-key-not-highest","C25","two or more groups plus a flush marker in one batch at snapshot time, cluster HWM between them, then promotion","(*cdc.Service).mainLoop#assert@cdcjson.MarshalToEnvelopeJSON[key-is-highest-index] (missed at first: mainLoop was not under contract; contract added)","missed, strengthened"),
 ("C27-update-new-rowid-is-old","C27","an UPDATE that changes the rowid (assigning to rowid or an INTEGER PRIMARY KEY alias)","(*db.DB).RegisterPreUpdateHook$convertFn#assert@return[event-describes-the-change], [row-ids-only-no-values]","caught"),
 ("C30-named-hex-blob-loses-name","C30","a NAMED parameter whose value is a hex blob literal, at an argument position different from its SQLite index","http.makeParameter#ensures[name-kept] (first reported through shifted return-statement ordinals; the return-anchored assertions were then replaced by layout-independent postconditions)","caught"),
 ("C32-rejoin-skips-remove","C32","a voter re-joining with the same id, a new address and voter=false","(*store.Store).Join#loop1-keep[every-clash-removed] (missed at first: completeness of the clash scan was not an obligation; added with the engine's iter: anchors)","missed, strengthened"),
 ("C33-recovery-skips-load-entries","C33","a LOAD entry not covered by any snapshot at recovery time (crash / no snapshot on close)","store.RecoverNode#assert@set:lastIndex[command-entry-not-skipped]","caught"),
]
rows=[]
for name,prop,needs,by,res in T:
    d=f'/verif/seeded/{name}'
    if not os.path.isdir(d): continue
    log=open(d+'/confirm.log').read() if os.path.exists(d+'/confirm.log') else ''
    meta={"property":prop,"breaks":prop,"needs_to_manifest":needs,
          "confirmed": "CONFIRMED" in log,
          "what_was_run":["tools/seedconfirm.sh (scratch worktree): go build ./...; demo with change must fail; demo without change must pass; go test -vet=off -count=1 -timeout 25m ./... with the change (demo removed) must pass",
                          "tools/seedrun.sh: git -C /repo apply patch.diff; bin/check "+prop+"; git -C /repo apply -R patch.diff"],
          "confirm_log":log.strip().split('\n'),
          "check_result":res,"reported_obligations":by}
    json.dump(meta,open(d+'/meta.json','w'),indent=1)
    rows.append(f"| `{name}` | {prop} | {needs} | {res} | {by} |")
print("| seeded change | prop | needs to manifest | result | obligation(s) reported |\n|---|---|---|---|---|")
print("\n".join(rows))
