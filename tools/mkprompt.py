#!/usr/bin/env python3
# writes /tmp/seed/<id>[-k].task.md: the task for a seeding sub-agent (property text only)
import json,sys
pid=sys.argv[1]; name=sys.argv[2] if len(sys.argv)>2 else pid
extra=sys.argv[3] if len(sys.argv)>3 else ""
for l in open('/verif/properties.jsonl'):
    p=json.loads(l)
    if p['id']==pid: break
wt=f"/tmp/seed/{name}"
txt=f"""# Task: seed a realistic property-breaking change into rqlite

You work ONLY inside the scratch git worktree `{wt}` (a checkout of rqlite/rqlite at a pinned
commit). Do not read or write anything under /verif or /repo, and do not look at other
directories under /tmp/seed. Do not use the network (there is none).

## The property (this is all you are given)

```json
{json.dumps(p,indent=1)}
```

## What to produce

Make ONE change to the rqlite source in `{wt}` (non-test .go files) that **breaks this property**
while the code still compiles and the EXISTING test suite still passes. The change should look
like a plausible regression a developer could introduce (a refactor slip, an optimisation, a
wrong comparison, a dropped step, a reordered pair of steps, a stale variable) — not sabotage that
ordinary use would expose at once. Prefer changes that need something specific to manifest: a
particular interleaving, a crash or fault at a particular point, a multi-step sequence of
operations, an unusual input, or two cooperating sites that each look fine alone. {extra}

Then write a demonstration: a NEW Go test file (e.g. `<pkg>/zz_seed_demo_test.go`, in-package
tests may use the package's existing test helpers) that FAILS with your change and PASSES
without it (on the original code). Keep it deterministic and fast (< 60 s).

## Rules / environment

* Build and test with the default `go` from inside the worktree, e.g.
  `cd {wt} && go build ./... && go test -vet=off -count=1 ./snapshot/...`. It works offline.
  (A conda WARNING line printed by the shell on each command is noise.)
* Run at least the tests of every package you touched, plus packages that obviously depend on the
  behaviour (e.g. `./store/...`, `./http/...`, `./cluster/...`, `./system_test/...` can be slow:
  `./store/...` ~2-3 min; skip system_test). They must all still pass WITH your change
  (without the demo test). If an existing test fails, pick a different change.
* Verify the demo: with the change -> demo test fails; temporarily revert the source change -> demo passes; then restore the change. Do NOT use `git stash` (the stash is
  shared with other worktrees and collides): use `git diff > /tmp/seed/{name}.patch; git apply -R /tmp/seed/{name}.patch; ...;
  git apply /tmp/seed/{name}.patch` instead.
* Do not edit existing tests. Do not commit. Leave the worktree with your source change applied
  and the demo test file present (both uncommitted).
* Do not touch files named `zz_contracts_verif.go` (none should exist).

## Final report (your last message)

1. `git diff` summary: files/functions changed and a 2-3 sentence description of the change.
2. Why it breaks the property and what it needs in order to manifest.
3. The demo test file path and the exact `go test` command (with -run) that shows it.
4. Which existing test packages you ran with the change and that they passed.
"""
open(f"/tmp/seed/{name}.task.md","w").write(txt)
print(f"/tmp/seed/{name}.task.md")
