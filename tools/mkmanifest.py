#!/usr/bin/env python3
"""Regenerates /verif/MANIFEST.json from props/*.json (claimed checks) and tools/not_applicable.json."""
import json, glob, os, subprocess
V = '/verif'
props = {}
for l in open(f'{V}/properties.jsonl'):
    p = json.loads(l); props[p['id']] = p
built = {'C13':'11.2','C17':'11.3','C22':'11.5','C33':'11.6 and 11.12','C01':'11.6','C21':'11.7','C30':'11.8','C25':'11.9','C27':'11.9','C32':'11.10','C06':'11.11','C14':'11.12','C07':'11.13','C08':'11.13','C04':'11.14','C03':'11.15','C26':'11.16','C05':'11.17'}
def note(c):
    t = '; '.join(c.get('trusted_base', []))
    nd = '; '.join(c.get('not_decided', []))
    return ('Trusted / assumed: ' + t if t else 'Trusted / assumed: see evidence') + ((' || NOT DECIDED by this check: ' + nd) if nd else '')
checks = []
claimed = set()
for f in sorted(glob.glob(f'{V}/props/C*.json')):
    c = json.load(open(f))
    m = c.get('manifest', {})
    cid = c['id']; claimed.add(cid)
    checks.append({
        'property_id': cid,
        'quick_cmd': f'bin/check {cid} --tier quick',
        'thorough_cmd': f'bin/check-thorough {cid}',
        'evidence_file': f'/verif/evidence/{cid}.json',
        'replay_cmd_template': 'bin/replay {path}',
        'engine': 'govc',
        'level_claimed': {
            'category': 'proof',
            'text': m.get('level_text', 'Contract obligations generated from the real function bodies are discharged by SMT solvers for all inputs and iterations.'),
            'design_ref': 'DESIGN.md §6 ' + cid + ((' (as built: §' + built[cid] + ')') if cid in built else ''),
        },
        'level_note': m.get('level_note', note(c)),
        'technique': m.get('technique', 'contract-based deductive verification: weakest-precondition style VC generation over go/ast+go/types of /repo, discharged by z3/cvc5'),
    })
na = json.load(open(f'{V}/tools/not_applicable.json'))
na_list = [{'property_id': k, 'reason': v} for k, v in sorted(na.items()) if k not in claimed]
for pid in sorted(props):
    if pid not in claimed and pid not in na:
        na_list.append({'property_id': pid, 'reason': 'check not built yet in this session (contracts for the anchored functions are not written); not claimed'})
na_list.sort(key=lambda x: x['property_id'])
hooks = [l.strip() for l in open(f'{V}/tools/hook_commits.txt')] if os.path.exists(f'{V}/tools/hook_commits.txt') else []
man = {
    'version': 1,
    'setup_cmd': 'bin/setup',
    'hooks': {
        'guard': 'verif (Go build tag)',
        'enable': 'go/packages loads /repo with -tags verif; the tag only adds comment-only contract files <pkg>/zz_contracts_verif.go (//@ lines), no executable code',
        'baseline_off_cmd': 'cd /repo && go test -mod=mod -vet=off -count=1 -timeout 25m ./...',
        'source_commits': hooks,
        'add_only': True,
    },
    'engines': [{
        'name': 'govc', 'path': '/verif/govc',
        'serves_properties': sorted(claimed),
        'kind_free_text': 'verification-condition generator for Go written for this task (go/packages + go/ast + go/types; Burstall heap; contracts as //@ comments in /repo under build tag verif) with z3 4.8.12 / z3 5.1.0 / cvc5 1.0.3 raced per obligation',
    }],
    'checks': checks,
    'not_applicable': na_list,
    'notes': 'All checks are contract-based deductive verification of the real code (see DESIGN.md). Known findings: known_findings.json. Self-test mutations: selftest/, seeded changes: seeded/.',
}
json.dump(man, open(f'{V}/MANIFEST.json', 'w'), indent=1)
print('claimed', len(checks), 'not_applicable', len(na_list))
