#!/usr/bin/env python3
"""Debug aid: for a failed obligation's replay JSON, report which top-level conjuncts of the goal fail."""
import json, sys, subprocess, tempfile, os
def parse(s):
    s=s.strip(); out=[]; stack=[[]]; i=0; n=len(s)
    while i<n:
        c=s[i]
        if c=='(':
            stack.append([]); i+=1
        elif c==')':
            t=stack.pop(); stack[-1].append(t); i+=1
        elif c.isspace(): i+=1
        elif c=='"':
            j=i+1
            while j<n and s[j]!='"': j+=1
            stack[-1].append(s[i:j+1]); i=j+1
        else:
            j=i
            while j<n and not s[j].isspace() and s[j] not in '()': j+=1
            stack[-1].append(s[i:j]); i=j
    return stack[0][0]
def show(t):
    return t if isinstance(t,str) else '('+' '.join(show(x) for x in t)+')'
def conj(t, hyp=None):
    if isinstance(t,list) and t and t[0]=='and':
        r=[]
        for x in t[1:]: r+=conj(x,hyp)
        return r
    if isinstance(t,list) and t and t[0]=='=>' and len(t)==3:
        h=t[1] if hyp is None else ['and',hyp,t[1]]
        return conj(t[2],h)
    return [t if hyp is None else ['=>',hyp,t]]
d=json.load(open(sys.argv[1]))
q=open(d['query_file']).read()
goal=d['goal']
marker='(assert (not '+goal+'))'
if marker not in q:
    print('goal marker not found'); sys.exit(1)
for c in conj(parse(goal)):
    cs=show(c)
    q2=q.replace(marker,'(assert (not '+cs+'))')
    q2=q2.replace('(get-model)','')
    with tempfile.NamedTemporaryFile('w',suffix='.smt2',delete=False) as f: f.write(q2); fn=f.name
    try:
        r=subprocess.run(['z3-new','-T:10',fn],capture_output=True,text=True).stdout.split('\n')[0]
    except Exception as e: r=str(e)
    os.unlink(fn)
    if r!='unsat': print(r,':',cs[:600])
