#!/bin/bash
# usage: tools/seedannotate.sh <seed-dir-name> <pkg> [note]
# Annotates confirm.log from the log of a single-package rerun written by seedrerun.sh.
out=/verif/seeded/$1; log=$out/confirm.log; pkg=$2
r=$out/rerun_$(echo $pkg | tr -d './').log
if grep -aq '^ok' $r && ! grep -aq '^--- FAIL\|^FAIL' $r; then
  echo "rerun of the one failing package alone (change applied, demo moved aside${3:+; $3}): go test $pkg -> ok" >> $log
  echo "CONFIRMED (after rerun)" >> $log
else
  echo "rerun of $pkg alone failed:" >> $log; grep -a '^--- FAIL' $r >> $log; echo "STILL NOT CONFIRMED" >> $log
fi
tail -2 $log
