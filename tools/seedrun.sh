#!/bin/bash
# usage: tools/seedrun.sh <seed-dir-name> <Cxx> [<Cyy>...]  — applies the seeded patch to /repo, runs the
# quick checks, and reverts /repo. Prints the VIOLATION lines.
s=/verif/seeded/$1; shift
cd /repo
export VERIF_DIR_OUT=$(mktemp -d /tmp/govc-seedrun.XXXXXX)
git apply $s/patch.diff || { echo "patch does not apply"; exit 2; }
for id in "$@"; do
  /verif/bin/check $id 2>&1 | grep -a "^govc: C\|VIOLATION\|machinery" | cut -c1-400
done
git -C /repo apply -R $s/patch.diff
rm -rf $VERIF_DIR_OUT
