#!/bin/bash
# usage: tools/seedrerun.sh <worktree-name> <seed-dir-name> <pkg>
# Re-runs one package of the existing suite alone in the scratch worktree (demo moved aside); annotate with seedannotate.sh.
wt=/tmp/seed/$1; out=/verif/seeded/$2; pkg=$3
cd $wt || exit 2
demos=$(cd $out/demo && find . -name '*_test.go' | sed 's|^\./||')
mkdir -p /tmp/seed/.aside/$1; for d in $demos; do [ -f $d ] && mv $d /tmp/seed/.aside/$1/$(echo $d | tr / _); done
go test -vet=off -count=1 -timeout 25m $pkg > $out/rerun_$(echo $pkg | tr -d './').log 2>&1
for d in $demos; do [ -f /tmp/seed/.aside/$1/$(echo $d | tr / _) ] && mv /tmp/seed/.aside/$1/$(echo $d | tr / _) $d; done
tail -3 $out/rerun_$(echo $pkg | tr -d './').log
