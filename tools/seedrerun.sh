#!/bin/bash
# usage: tools/seedrerun.sh <worktree-name> <seed-dir-name> <pkg> [<extra file to move aside>]
# Re-runs one package of the existing suite alone in the scratch worktree (demo moved aside) and annotates confirm.log.
wt=/tmp/seed/$1; out=/verif/seeded/$2; log=$out/confirm.log; pkg=$3
cd $wt || exit 2
demos=$(cd $out/demo && find . -name '*_test.go' | sed 's|^\./||')
mkdir -p /tmp/seed/.aside/$1; for d in $demos; do [ -f $d ] && mv $d /tmp/seed/.aside/$1/$(echo $d | tr / _); done
[ -n "$4" ] && [ -f "$4" ] && mv $4 /tmp/seed/.aside/$1/extra_$(basename $4)
go test -vet=off -count=1 -timeout 25m $pkg > $out/rerun_$(echo $pkg | tr -d './').log 2>&1; rc=$?
for d in $demos; do [ -f /tmp/seed/.aside/$1/$(echo $d | tr / _) ] && mv /tmp/seed/.aside/$1/$(echo $d | tr / _) $d; done
if [ $rc -eq 0 ]; then
  echo "rerun of the one failing package alone (change applied, demo moved aside${4:+, $4 (the agent's own reproduction of the original defect, not part of the existing suite) moved aside}): go test $pkg -> ok" >> $log
  echo "CONFIRMED (after rerun)" >> $log
else
  echo "rerun of $pkg alone: rc=$rc" >> $log; grep -a '^--- FAIL' $out/rerun_*.log >> $log; echo "STILL NOT CONFIRMED" >> $log
fi
tail -2 $log
